"""Davidson driver: CIS/RPA jobs on the real code with the Davidson hooks recording; builds DavidsonTrace
traces and evaluates eigenpair predicates against a dense matrix assembled with the code's own sigma routine."""

import torch

from . import mdlib, scf_driver
from .mdlib import _verif


def split(events, jid):
    traces = []
    cur = None
    for e in events:
        n = e["ev"]
        if n == "dav.begin":
            cur = {"id": f"{jid}#{len(traces)}", "nmol": e["nmol"], "nroots": e["nroots"], "maxsub": e["maxsub"], "maxit": e["max_iter"], "nstart": e["nstart"], "nov": e["nov"], "tol": e["tol"], "ev": [], "_d": None, "stag_with_residual": []}
        elif cur is None:
            continue
        elif n == "dav.iter":
            dig = list(zip(e["edig"], e["adig"]))
            frozen = [cur["_d"] is None or dig[m] == cur["_d"][m] for m in range(len(dig))]
            cur["_d"] = dig
            cur["ev"].append({"name": "iter", "it": e["it"], "vstart": e["vstart"], "vend": e["vend"], "done": e["done"], "nnc": e["nnc"], "collapsed": e["collapsed"], "frozen": frozen, "maxres": e["maxres"]})
        elif n == "dav.exit":
            dig = list(zip(e["edig"], e["adig"]))
            frozen = [cur["_d"] is None or dig[m] == cur["_d"][m] for m in range(len(dig))]
            cur["ev"].append({"name": "exit", "done": e["done"], "frozen": frozen})
            del cur["_d"]
            traces.append(cur)
            cur = None
    if cur is not None:
        del cur["_d"]
        cur["truncated"] = True
        traces.append(cur)
    return traces


def run_job(job):
    from harness import common
    from seqm.ElectronicStructure import Electronic_Structure
    import seqm.seqm_functions.rcis_batch as rb

    mdlib.use_stub(False)
    common.quiet_stdio()
    events = []
    _verif.configure(sink=events.append)
    captured = {}
    orig_mv = rb.matrix_vector_product_batched

    def mv(mol, V, w, ea_ei, Cocc, Cvirt, makeB=False):
        if not captured.get("locked"):
            captured["args"] = (mol, w, ea_ei, Cocc, Cvirt)
        return orig_mv(mol, V, w, ea_ei, Cocc, Cvirt, makeB)

    rb.matrix_vector_product_batched = mv
    import seqm.seqm_functions.rpa as rpamod

    rpamod.matrix_vector_product_batched = mv
    if job.get("maxsub"):
        # emulate a small memory budget: the subspace bound is derived from free memory, so small molecules never collapse otherwise
        cap = int(job["maxsub"])
        rb.getMaxSubspacesize = lambda *a, **k: cap
        rpamod.getMaxSubspacesize = lambda *a, **k: cap
        import seqm.seqm_functions.rcis_new as rnew

        rnew.getMaxSubspacesize = lambda *a, **k: cap
    exc = {"n_states": int(job["nroots"]), "method": job["method"], "tolerance": job["tol"]}
    if job.get("window"):
        exc["orbital_window"] = tuple(job["window"])
    if job.get("max_iter"):
        exc["max_iter"] = int(job["max_iter"])
    params = mdlib.seqm_params(scf_eps=job["tol"] * 1e-2, scf_converger=[1], excited_states=exc)
    out = {"id": job["id"]}
    try:
        scf_driver.MOLS.setdefault("h2co_d", ([8, 6, 1, 1], [[-0.02, 0.03, 0.05], [1.24, -0.02, -0.03], [1.60, 0.99, 0.10], [1.86, -0.80, -0.12]], 0, 1))
        scf_driver.MOLS.setdefault("h2o_d", ([8, 1, 1], [[0.02, 0.00, 0.01], [1.02, 0.03, 0.00], [-0.30, 0.88, 0.05]], 0, 1))
        mol = scf_driver.make(job["mols"], params, displace=0.05)
        mol.verbose = False
        es = Electronic_Structure(params)
        window_ref = None
        if job.get("window"):
            # reference for a windowed solve: the full CIS matrix (no window) restricted to the window's occupied x virtual pairs
            pfull = mdlib.seqm_params(scf_eps=job["tol"] * 1e-2, scf_converger=[1], excited_states={"n_states": 1, "method": "cis", "tolerance": job["tol"]})
            molf = scf_driver.make(job["mols"], pfull, displace=0.05)
            molf.verbose = False
            Electronic_Structure(pfull)(molf)
            m_, wf, eaf, Cof, Cvf = captured["args"]
            nocc, nvirt = Cof.shape[2], Cvf.shape[2]
            nov = nocc * nvirt
            eye = torch.eye(nov, dtype=wf.dtype).unsqueeze(0).expand(Cof.shape[0], nov, nov).contiguous()
            Af = orig_mv(m_, eye, wf, eaf, Cof, Cvf)
            Af = 0.5 * (Af + Af.transpose(1, 2))
            nb, ma = job["window"]
            keep = [i * nvirt + a for i in range(nocc - nb, nocc) for a in range(ma)]
            sub = Af[:, keep][:, :, keep]
            window_ref = torch.linalg.eigvalsh(sub)[:, : int(job["nroots"])].tolist()
            captured.pop("args", None)
        if job.get("reuse"):
            es(mol)
            with torch.no_grad():
                if job.get("second") == "rotate":
                    x = mol.coordinates.clone()
                    mol.coordinates[..., 0] = -x[..., 1]
                    mol.coordinates[..., 1] = x[..., 0]
                else:
                    g = torch.Generator().manual_seed(3)
                    mol.coordinates.add_(0.02 * (torch.rand(mol.coordinates.shape, generator=g, dtype=torch.float64) - 0.5) * (mol.species > 0).unsqueeze(-1))
            events.clear()
            es(mol, P0=mol.dm, cis_amp=mol.cis_amplitudes)
        else:
            es(mol)
        if window_ref is not None:
            out["window_ref"] = window_ref
        if job.get("reuse"):
            # the same geometry on a molecule object that has no history
            from seqm.Molecule import Molecule
            from seqm.seqm_functions.constants import Constants

            p2 = dict(params)
            fresh = Molecule(Constants(), p2, mol.coordinates.detach().clone(), mol.species.clone(), charges=mol.tot_charge.clone(), mult=mol.mult.clone() if torch.is_tensor(mol.mult) else mol.mult)
            fresh.verbose = False
            keep_args = captured.get("args")
            Electronic_Structure(p2)(fresh)
            if keep_args is not None:
                captured["args"] = keep_args
            out["fresh_energies"] = fresh.cis_energies.detach().tolist()
        out["outcome"] = "returned"
        E = mol.cis_energies.detach()
        out["energies"] = E.tolist()
        amp = mol.cis_amplitudes.detach()
        if job["method"] == "cis" and amp.dim() == 3:
            G = torch.einsum("bro,bso->brs", amp, amp)
            out["gram_dev"] = float((G - torch.eye(G.shape[1], dtype=G.dtype)).abs().max())
            if "args" in captured and torch.equal(mol.species, mol.species[0].expand_as(mol.species)):
                captured["locked"] = True
                m_, w, ea_ei, Cocc, Cvirt = captured["args"]
                nov = amp.shape[2]
                if nov <= 40:
                    eye = torch.eye(nov, dtype=amp.dtype).unsqueeze(0).expand(amp.shape[0], nov, nov).contiguous()
                    A = orig_mv(m_, eye, w, ea_ei, Cocc, Cvirt)
                    out["A_asym"] = float((A - A.transpose(1, 2)).abs().max())
                    ev = torch.linalg.eigvalsh(0.5 * (A + A.transpose(1, 2)))
                    out["dense_lowest"] = ev[:, : E.shape[1]].tolist()
                    res = torch.einsum("bro,bpo->brp", amp, A) - E.unsqueeze(2) * amp
                    out["residual"] = float(res.abs().max())
        if job["method"] == "rpa" and amp.dim() == 4 and "args" in captured:
            # dense reference with the code's own sigma routine (returns A V and B V)
            captured["locked"] = True
            m_, w, ea_ei, Cocc, Cvirt = captured["args"]
            X, Y = amp[0], amp[1]
            nov = X.shape[2]
            if nov <= 40:
                eye = torch.eye(nov, dtype=X.dtype).unsqueeze(0).expand(X.shape[0], nov, nov).contiguous()
                Ap, Bp = orig_mv(m_, eye, w, ea_ei, Cocc, Cvirt, True)
                Mp = (Ap + Bp).transpose(1, 2)
                Mm = (Ap - Bp).transpose(1, 2)
                w2 = torch.linalg.eigvals(Mm @ Mp)
                out["dense_imag"] = float(w2.imag.abs().max())
                w2 = torch.sort(w2.real, dim=1).values
                out["dense_lowest"] = torch.sqrt(w2.clamp(min=0.0))[:, : E.shape[1]].tolist()
                r1 = torch.einsum("bpo,bro->brp", Mp, X + Y) - E.unsqueeze(2) * (X - Y)
                r2 = torch.einsum("bpo,bro->brp", Mm, X - Y) - E.unsqueeze(2) * (X + Y)
                out["residual"] = float(max(r1.abs().max(), r2.abs().max()))
                nrm = (X * X).sum(-1) - (Y * Y).sum(-1)
                out["rpa_norm_dev"] = float((nrm - 1.0).abs().max())
        if "args" in captured and job.get("independent", True) and not job.get("window") and torch.equal(mol.species, mol.species[0].expand_as(mol.species)):
            # (A+B) of the response problem rebuilt WITHOUT the response code: orbital-energy differences plus twice the projection
            # of the SCF Fock builder's two-electron part for the symmetrised transition density of every occupied x virtual pair
            from seqm.seqm_functions.fock import fock as scf_fock
            from seqm.seqm_functions.hcore import hcore
            from seqm.seqm_functions.pack import pack, unpack

            m_, w, ea_ei, Cocc, Cvirt = captured["args"]
            nm, nb, no = Cocc.shape
            nv = Cvirt.shape[2]
            nov = no * nv
            if nov <= 40 and m_ is mol:
                eye = torch.eye(nov, dtype=w.dtype).unsqueeze(0).expand(nm, nov, nov).contiguous()
                Ac, Bc = orig_mv(m_, eye, w, ea_ei, Cocc, Cvirt, True)
                M, w2 = hcore(mol)[:2]
                pr = mol.parameters
                size = 4 * mol.molsize

                def Fb(P):
                    Fm = scf_fock(mol.nmol, mol.molsize, P, M, mol.maskd, mol.mask, mol.idxi, mol.idxj, w2, None, pr["g_ss"], pr["g_pp"], pr["g_sp"], pr["g_p2"], pr["h_sp"], mol.method,
                                  pr["s_orb_exp_tail"], pr["p_orb_exp_tail"], pr["d_orb_exp_tail"], mol.Z, pr["F0SD"], pr["G2SD"])
                    return Fm.triu() + Fm.triu(1).transpose(1, 2)

                F0 = Fb(torch.zeros(nm, size, size, dtype=w.dtype))
                ref = torch.zeros(nm, nov, nov, dtype=w.dtype)
                de = ea_ei.reshape(nm, nov)
                for r in range(nov):
                    jj, bb = divmod(r, nv)
                    T = torch.einsum("nm,nk->nmk", Cocc[:, :, jj], Cvirt[:, :, bb])
                    G = pack(Fb(unpack(T + T.transpose(1, 2), mol.nHeavy, mol.nHydro, size)) - F0, mol.nHeavy, mol.nHydro)
                    ref[:, r, :] = 2.0 * torch.einsum("nmi,nmk,nka->nia", Cocc, G, Cvirt).reshape(nm, nov)
                    ref[:, r, r] += de[:, r]
                out["apb_independent_dev"] = float((Ac + Bc - ref).abs().max() / (Ac + Bc).abs().max())
    except Exception as ex:  # noqa
        out["outcome"] = "raised"
        out["error"] = f"{type(ex).__name__}: {str(ex)[:300]}"
    out["traces"] = split(events, job["id"])
    return out
