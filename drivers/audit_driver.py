"""State-completeness audit of the checkpoint: the engine and molecule objects of a resumed run, one integrator step after
the resume, must carry the same state (every attribute, not only what the output files show) as the objects of the
uninterrupted run at the same step.  Binds Pyseqm!EngineStateExact to whatever state an engine actually keeps."""

import hashlib
import os
import pickle

import numpy as np
import torch

from . import mdlib
from .mdlib import MDmod, _verif

SKIP_TYPES = (torch.nn.Module,)
# attributes that describe the run segment, not the physical state
SEGMENT_ATTRS = {"step_offset", "_resume_E0", "_start_time", "_t0", "_last_ckpt_time", "_h5_writer", "_xyz_writer", "output_config", "output", "esdriver",
                 "_verif_seen", "const", "parameters_cache"}


def snap(obj, depth=0):
    """Attribute snapshot: tensors -> numpy copy, scalars as they are, containers recursively, other objects by class name."""
    if torch.is_tensor(obj):
        return ("T", tuple(obj.shape), str(obj.dtype), obj.detach().cpu().numpy().copy())
    if isinstance(obj, np.ndarray):
        return ("T", tuple(obj.shape), str(obj.dtype), obj.copy())
    if isinstance(obj, (bool, int, float, str, type(None))):
        return ("V", obj)
    if isinstance(obj, (list, tuple)) and depth < 3:
        return ("L", [snap(x, depth + 1) for x in obj])
    if isinstance(obj, dict) and depth < 3:
        return ("D", {str(k): snap(v, depth + 1) for k, v in obj.items()})
    return ("O", type(obj).__name__)


def snapshot(md, mol):
    out = {}
    for owner, o in (("md", md), ("mol", mol)):
        for k, v in vars(o).items():
            if k in SEGMENT_ATTRS or isinstance(v, SKIP_TYPES) or callable(v) and not torch.is_tensor(v):
                continue
            out[f"{owner}.{k}"] = snap(v)
    return out


def install(at_step, path):
    """Dump the snapshot right before the integrator step with loop index `at_step` (once)."""
    orig = MDmod.Molecular_Dynamics_Basic._do_integrator_step
    done = {"n": 0}

    def wrapper(self, i, molecule, *a, **k):
        if i == at_step and not done["n"]:
            done["n"] = 1
            with open(path, "wb") as f:
                pickle.dump(snapshot(self, molecule), f)
        return orig(self, i, molecule, *a, **k)

    MDmod.Molecular_Dynamics_Basic._do_integrator_step = wrapper
    # engines that override the method keep their own; wrap those too
    for cls in _subclasses(MDmod.Molecular_Dynamics_Basic):
        if "_do_integrator_step" in vars(cls):
            o2 = vars(cls)["_do_integrator_step"]

            def w2(self, i, molecule, *a, _o=o2, **k):
                if i == at_step and not done["n"]:
                    done["n"] = 1
                    with open(path, "wb") as f:
                        pickle.dump(snapshot(self, molecule), f)
                return _o(self, i, molecule, *a, **k)

            setattr(cls, "_do_integrator_step", w2)


def _subclasses(c):
    out = []
    for s in c.__subclasses__():
        out.append(s)
        out += _subclasses(s)
    return out


def differ(a, b, tol):
    if a[0] != b[0]:
        return f"kind {a[0]} vs {b[0]}"
    if a[0] == "T":
        if a[1] != b[1] or a[2] != b[2]:
            return f"shape/dtype {a[1]} {a[2]} vs {b[1]} {b[2]}"
        x, y = a[3], b[3]
        if x.dtype.kind in "fc":
            bad = ~(np.isclose(x, y, rtol=tol, atol=tol) | (np.isnan(x) & np.isnan(y)))
            if bad.any():
                return "max abs diff %.3e" % float(np.nanmax(np.abs(x - y)))
            return None
        return None if np.array_equal(x, y) else "integer/bool tensor differs"
    if a[0] == "V":
        if isinstance(a[1], float) and isinstance(b[1], float):
            return None if abs(a[1] - b[1]) <= tol * (1 + abs(b[1])) else f"{a[1]} vs {b[1]}"
        return None if a[1] == b[1] else f"{a[1]!r} vs {b[1]!r}"
    if a[0] == "L":
        if len(a[1]) != len(b[1]):
            return f"length {len(a[1])} vs {len(b[1])}"
        for n, (x, y) in enumerate(zip(a[1], b[1])):
            d = differ(x, y, tol)
            if d:
                return f"[{n}] {d}"
        return None
    if a[0] == "D":
        if set(a[1]) != set(b[1]):
            return f"keys {sorted(set(a[1]) ^ set(b[1]))[:4]}"
        for k in a[1]:
            d = differ(a[1][k], b[1][k], tol)
            if d:
                return f"[{k}] {d}"
        return None
    return None if a[1] == b[1] else f"{a[1]} vs {b[1]}"


def audit(case):
    """case: MD case (mdlib.build_md keys) + ckpt_step s (a multiple of the checkpoint cadence) + workdir.
    Uninterrupted run and a run crashed right after the checkpoint of step s and resumed; snapshots are taken right before the
    integrator step with loop index s + 1, i.e. one full loop iteration after the resume."""
    import subprocess
    import sys

    wd = case["workdir"]
    os.makedirs(wd, exist_ok=True)
    s = int(case["ckpt_step"])
    at = s + 1
    outs = {}
    for tag, plan in (("ref", [None]), ("res", ["md.ckpt@i=%d:soft" % (s - 1), None])):
        d = os.path.join(wd, tag)
        os.makedirs(d, exist_ok=True)
        for seg, crash in enumerate(plan):
            code = (
                "import sys, os, pickle\n"
                "sys.path.insert(0, %r)\n"
                "from drivers import mdlib, audit_driver\n"
                "case = pickle.load(open(%r, 'rb'))\n"
                "audit_driver.install(%d, %r)\n"
                "r = mdlib.run_segment(case, %r, %d, crash=%r, trace_path=None, stub=case.get('stub', True))\n"
                "open(%r, 'w').write(r['status'])\n"
            ) % ("/verif", os.path.join(wd, "case.pkl"), at, os.path.join(d, "snap.pkl"), d, seg, crash, os.path.join(d, "status.%d" % seg))
            with open(os.path.join(wd, "case.pkl"), "wb") as f:
                pickle.dump({k: v for k, v in case.items() if k != "workdir"}, f)
            p = subprocess.run([sys.executable, "-W", "ignore", "-c", code], env=dict(os.environ), stdout=subprocess.PIPE, stderr=subprocess.STDOUT, text=True, timeout=1200)
            if p.returncode != 0:
                return {"error": f"{tag} segment {seg} rc {p.returncode}: {p.stdout[-600:]}"}
        if not os.path.exists(os.path.join(d, "snap.pkl")):
            return {"error": f"{tag}: no snapshot taken (steps too few?)"}
        outs[tag] = pickle.load(open(os.path.join(d, "snap.pkl"), "rb"))
    a, b = outs["ref"], outs["res"]
    diffs = []
    for k in sorted(set(a) | set(b)):
        if k not in a or k not in b:
            diffs.append({"attr": k, "what": "only in " + ("uninterrupted" if k in a else "resumed")})
            continue
        d = differ(a[k], b[k], float(case.get("tol", 1e-6)))
        if d:
            diffs.append({"attr": k, "what": d})
    return {"attrs": len(set(a) | set(b)), "diffs": diffs, "names": sorted(set(a) | set(b))}
