"""Execute MD cases (with crash schedules) on the real code and return normalised traces."""

import os
import sys

from harness import common, mdtrace

from . import mdlib

# model program point (pc at which the crash strikes, i.e. the state *after* the section
# that the hook closes) -> hook to arm.  {i} is the loop index, {s} = i + 1.
HOOK_PCS = {"step", "stepdone", "scr", "data2", "vec", "xyz", "flushh", "tmp", "replace", "next"}


def crash_plan(pc, i, kind, case, seg_start):
    """Translate a model crash (pc, i, kind) -- pc is the model program point the crash strikes
    at, i.e. the state just after the code section whose hook is named here -- into a hook
    crash plan.  None if this model point has no hook (not replayable at hook level)."""
    cad = case["cad"]
    s = i + 1
    due = lambda c: c > 0 and s % c == 0  # noqa: E731
    vec_on = any(cad.get(k, 0) for k in ("coordinates", "velocities", "forces"))
    ck_due = due(case.get("ckpt", 0))
    plan = None
    if pc == "step":
        plan = "md.init" if i == seg_start else "md.iter_end@i=%d" % (i - 1)
    elif pc == "stepdone":
        plan = "md.na@i=%d" % i if due(cad.get("na", 0)) else None
    elif pc == "scr":
        plan = "md.step@i=%d" % i
    elif pc == "data2":
        plan = "md.data.mid@step=%d" % s
    elif pc == "vec":
        plan = "md.data@i=%d" % i if due(cad.get("data", 0)) else None
    elif pc == "xyz":
        plan = "md.vec@i=%d" % i if vec_on else None
    elif pc == "flushh":
        plan = "md.xyz@i=%d" % i if due(case.get("xyz", 0)) else None
    elif pc == "tmp":
        plan = "md.flush@i=%d" % i
    elif pc == "replace":
        plan = "md.ckpt_tmp@step_done=%d" % s
    elif pc == "next":
        if ck_due:
            plan = "md.ckpt_replace@step_done=%d" % s
        elif due(case.get("xyz", 0)):
            plan = "md.xyz@i=%d" % i
    return None if plan is None else plan + ":" + kind


def _run_one_segment(case, workdir, seg, crash, stub):
    """fork a grandchild for one segment; returns status string"""
    tpath = os.path.join(workdir, f"trace.{seg}.ndjson")
    sys.stdout.flush()
    pid = os.fork()
    if pid == 0:
        code = 0
        try:
            r = mdlib.run_segment(case, workdir, seg, crash=crash, trace_path=tpath, stub=stub)
            code = 0 if r["status"] == "finished" else 10
        except BaseException as ex:  # noqa
            import traceback

            with open(os.path.join(workdir, f"error.{seg}.txt"), "w") as fh:
                fh.write(traceback.format_exc())
            code = 11
        finally:
            sys.stdout.flush()
            os._exit(code)
    _, status = os.waitpid(pid, 0)
    code = os.waitstatus_to_exitcode(status)
    return {0: "finished", 10: "soft", 137: "hard", 11: "error"}.get(code, f"exit{code}")


def execute(case, schedule, workdir, refdir, stub=True, keep=False, tol=None):
    """Run `case` under `schedule` = [(pc, i, kind), ...] (model crash points).  Returns a dict
    with the normalised trace, python-level problems and the final observation."""
    os.makedirs(workdir, exist_ok=True)
    molid = case.get("molid", [0])
    segments = []
    problems = []
    seg = 0
    sched = list(schedule)
    unarmed = []
    while True:
        crash = None
        if sched:
            pc, i, kind = sched.pop(0)
            seg_start = 0 if seg == 0 else segments[-1]["obs"]["ckpt"]["done"]
            crash = crash_plan(pc, i, kind, case, seg_start)
            if crash is None:
                unarmed.append((pc, i, kind))
        status = _run_one_segment(case, workdir, seg, crash, stub)
        ev = mdlib.load_trace(os.path.join(workdir, f"trace.{seg}.ndjson"))
        obs = mdlib.observe(workdir, molid, refdir=refdir, tol=tol)
        segments.append({"events": ev, "status": status, "obs": obs, "scr": mdlib.screen_labels(workdir, seg), "crash": crash})
        if status == "error" or status.startswith("exit"):
            err = ""
            ep = os.path.join(workdir, f"error.{seg}.txt")
            if os.path.exists(ep):
                err = open(ep).read()[-1500:]
            problems.append({"kind": "segment_error", "segment": seg, "status": status, "error": err})
            break
        if status == "finished":
            break
        if obs["ckpt"]["done"] < 0:
            break  # nothing to resume from
        if obs["ckpt"]["loadable"] is False:
            problems.append({"kind": "checkpoint_unloadable", "segment": seg, "error": obs["ckpt"].get("error")})
            break
        seg += 1
        if seg > 8:
            problems.append({"kind": "too_many_segments"})
            break
    trace, nprob = mdtrace.normalize(case, segments, case.get("id", "case"))
    for p in nprob:
        problems.append({"kind": "trace_normalisation", "what": p})
    # python-level checks on the other molids (the model follows the first molid's files)
    final = segments[-1]
    out = {
        "trace": trace,
        "problems": problems,
        "final_status": final["status"],
        "segments": [{"status": s["status"], "crash": s["crash"], "n_events": len(s["events"])} for s in segments],
        "final_obs": final["obs"],
        "unarmed": unarmed,
        "maxdev": max(s["obs"].get("maxdev", 0.0) for s in segments),
    }
    if not keep:
        common.rm(workdir)
    return out


def reference(case, workdir, stub=True):
    """Uninterrupted reference run with every stream written at every step, all molecules."""
    ref = dict(case)
    nmol = len(mdlib.SYSTEMS[case.get("system", "h2o_h2")]["species"])
    ref["molid"] = list(range(nmol))
    cad = {k: 1 for k in ("data", "coordinates", "velocities", "forces")}
    for k in ("tdm", "na"):
        if case["cad"].get(k, 0) or case.get("ref_" + k):
            cad[k] = 1
    ref["cad"] = cad
    ref["xyz"] = 1
    ref["ckpt"] = 0
    ref["print"] = 0
    ref["id"] = "ref"
    status = _run_one_segment(ref, workdir, 0, None, stub)
    if status != "finished":
        err = ""
        ep = os.path.join(workdir, "error.0.txt")
        if os.path.exists(ep):
            err = open(ep).read()[-2000:]
        raise RuntimeError(f"reference run failed: {status}\n{err}")
    return workdir
