"""Guards driver: one replay per row of the Guards decision table."""

import torch

from . import mdlib, scf_driver
from .mdlib import MDmod

from seqm.ElectronicStructure import Electronic_Structure  # noqa: E402
from seqm.Molecule import Molecule  # noqa: E402
from seqm.seqm_functions.constants import Constants  # noqa: E402

PUBLISHED = ["Etot", "Hf", "force", "q", "e_mo"]  # assigned by Electronic_Structure.forward only on success


def build(req):
    names = ["h2o", "h2o"] if req["homog"] else ["h2o", "ch4"]
    sp, xyz, q, mult = scf_driver.build_batch(names, displace=0.05)
    nel_even = not req["odd"]
    if req["odd"]:
        q = torch.ones_like(q)
    if req.get("qmix"):
        q = q.clone()
        q[1] = q[1] + 2.0          # same parity, two electrons less than its batch mate
    if req["uhf"]:
        good = 1.0 if nel_even else 2.0
        bad = 2.0 if nel_even else 1.0
        mult = torch.full_like(mult, good if req["mult_ok"] else bad)
    if req["sorted"] == "reversed":
        n0 = int((sp[0] > 0).sum())
        perm = list(range(n0))[::-1] + list(range(n0, sp.shape[1]))
        sp[0] = sp[0][perm]
        xyz[0] = xyz[0][perm]
    elif req["sorted"] in ("pad_front", "pad_middle"):
        # one more column of zero padding, placed in front of / between the atoms of row 0
        sp = torch.cat([sp, torch.zeros(sp.shape[0], 1, dtype=sp.dtype)], dim=1)
        xyz = torch.cat([xyz, torch.zeros(xyz.shape[0], 1, 3, dtype=xyz.dtype)], dim=1)
        n = sp.shape[1]
        n0 = int((sp[0] > 0).sum())
        order = list(range(n))
        pad = order.pop(n0)          # index of the first padding slot of row 0
        order.insert(0 if req["sorted"] == "pad_front" else 1, pad)
        sp[0] = sp[0][order]
        xyz[0] = xyz[0][order]
    conv = {0: [0, 0.3], 1: [1], 2: [2]}[req["conv"]]
    p = mdlib.seqm_params(scf_converger=conv, sp2=[bool(req["sp2"]), 1e-5], scf_eps=1e-7)
    if req["uhf"]:
        p["UHF"] = True
    if req["exc"] != "none":
        ex = {"method": "eom" if req["exc"] == "bogus" else req["exc"]}
        if req["nstates"]:
            ex["n_states"] = 2
        p["excited_states"] = ex
    if req["active"]:
        p["active_state"] = int(req["active"])
    return p, sp, xyz, q, mult


def run_row(row):
    mdlib.use_stub(False)
    from harness import common
    from seqm import _verif

    common.quiet_stdio()
    _verif.configure(budget={"sp2.iter:k": 3000})
    req = row["req"]
    out = {"stage_reached": "start"}
    mol = None
    try:
        p, sp, xyz, q, mult = build(req)
        mol = Molecule(Constants(), p, xyz, sp, charges=q, mult=mult)
        mol.verbose = False
        out["stage_reached"] = "molecule_built"
        if req["com"] == "nomd":
            es = Electronic_Structure(p)
            out["stage_reached"] = "driver_built"
            es(mol)
            flags = es.notconverged
        else:
            outp = {"molid": [], "prefix": "/nonexistent/md", "print every": 0, "checkpoint every": 0, "xyz": 0, "h5": {}}
            md = MDmod.Molecular_Dynamics_Basic(seqm_parameters=p, timestep=0.2, Temp=100.0, output=outp)
            out["stage_reached"] = "driver_built"
            rc = None if req["com"] == "none" else (req["com"], 1)
            md.run(mol, steps=1, remove_com=rc, seed=1)
            flags = md.esdriver.notconverged
        out["outcome"] = "returned"
        fin = bool(torch.isfinite(mol.Etot).all() and torch.isfinite(mol.force).all() and torch.isfinite(mol.q).all())
        out["finite"] = fin
        out["flagged"] = bool(flags.any())
    except _verif.VerifBudgetExceeded as ex:
        out["outcome"] = "hang"
        out["error"] = str(ex)
    except Exception as ex:  # noqa
        out["outcome"] = "raised"
        out["cls"] = type(ex).__name__
        out["error"] = str(ex)[:160]
        if mol is not None:
            out["published_after_raise"] = [a for a in PUBLISHED if getattr(mol, a, None) is not None]
    return out


STRESS = [
    # (name, molecule, scale, charge, method, uhf/mult)
    ("h2o x0.5", "h2o", 0.5, 0, "AM1"), ("h2o x0.7", "h2o", 0.7, 0, "PM3"), ("h2o x2", "h2o", 2.0, 0, "AM1"), ("h2o x5", "h2o", 5.0, 0, "MNDO"),
    ("h2o x20", "h2o", 20.0, 0, "AM1"), ("h2o x30", "h2o", 30.0, 0, "PM3"), ("ch4 x0.5", "ch4", 0.5, 0, "AM1"), ("c2h4 x3", "c2h4", 3.0, 0, "AM1"),
    ("h2o +2", "h2o", 1.0, 2, "AM1"), ("h2o +4", "h2o", 1.0, 4, "AM1"), ("h2o -2", "h2o", 1.0, -2, "PM3"), ("nh3 +2", "nh3", 1.0, 2, "MNDO"),
    ("co2 x1", "co2", 1.0, 0, "AM1"), ("co2 x0.6", "co2", 0.6, 0, "PM3"), ("hf x10", "hf", 10.0, 0, "AM1"),
    ("hcl", "hcl", 1.0, 0, "AM1"), ("h2s", "h2s", 1.0, 0, "PM3"), ("sih4", "sih4", 1.0, 0, "AM1"), ("ph3", "ph3", 1.0, 0, "PM3"), ("hcl mndo", "hcl", 1.0, 0, "MNDO"),
    # unrestricted references with an empty spin channel (one electron; two parallel electrons), near and far
    ("h2+ doublet", "h2", 1.0, 1, "AM1", 2), ("h2+ doublet x4", "h2", 4.0, 1, "PM3", 2), ("h2 triplet", "h2", 1.0, 0, "AM1", 3), ("h2 triplet x4", "h2", 4.0, 0, "MNDO", 3),
    ("h2+ doublet fixed mixing", "h2", 1.0, 1, "AM1", 2, None, [0, 0.3]),
    # elements whose valence shell the overlap routines do not implement must be refused, not computed with another shell's formulas
    ("hbr", "hbr", 1.0, 0, "AM1", None, "raise"), ("h2se", "h2se", 1.0, 0, "PM3", None, "raise"), ("hi", "hi", 1.0, 0, "AM1", None, "raise"), ("hbr pm6sp", "hbr", 1.0, 0, "PM6_SP", None, "raise"),
    ("h2s x0.6", "h2s", 0.6, 0, "AM1"), ("hcl x15", "hcl", 15.0, 0, "PM3"), ("ch3cl", "ch3cl", 1.0, 0, "PM3"), ("pm6sp h2o", "h2o", 1.0, 0, "PM6_SP"), ("pm6sp h2s x3", "h2s", 3.0, 0, "PM6_SP"),
]
scf_driver.MOLS.update({
    "hcl": ([17, 1], [[0, 0, 0], [1.27, 0, 0]], 0, 1),
    "hbr": ([35, 1], [[0, 0, 0], [1.41, 0.02, 0.01]], 0, 1),
    "hi": ([53, 1], [[0, 0, 0], [1.61, 0.02, 0.01]], 0, 1),
    "h2se": ([34, 1, 1], [[0, 0, 0], [1.46, 0, 0.01], [-0.05, 1.46, 0]], 0, 1),
    "h2s": ([16, 1, 1], [[0, 0, 0], [1.34, 0, 0], [-0.05, 1.34, 0]], 0, 1),
    "sih4": ([14, 1, 1, 1, 1], [[0, 0, 0], [0.85, 0.85, 0.85], [-0.85, -0.85, 0.85], [-0.85, 0.85, -0.85], [0.85, -0.85, -0.85]], 0, 1),
    "ph3": ([15, 1, 1, 1], [[0, 0, 0.13], [1.19, 0, -0.62], [-0.6, 1.03, -0.62], [-0.6, -1.03, -0.62]], 0, 1),
    "ch3cl": ([17, 6, 1, 1, 1], [[1.78, 0, 0], [0, 0, 0], [-0.36, 1.03, 0], [-0.36, -0.51, 0.89], [-0.36, -0.51, -0.89]], 0, 1),
})


def run_stress(case):
    mdlib.use_stub(False)
    from harness import common
    from seqm import _verif

    common.quiet_stdio()
    _verif.configure(budget={"sp2.iter:k": 3000})
    name, m, scale, charge, method = case[:5]
    umult = case[5] if len(case) > 5 else None
    conv = case[7] if len(case) > 7 else [1]
    out = {"name": name, "expect": case[6] if len(case) > 6 else None}
    try:
        p = mdlib.seqm_params(method=method, scf_eps=1e-6, scf_converger=conv)
        sp, xyz, q, mult = scf_driver.build_batch([m])
        xyz = xyz * scale
        q = torch.full_like(q, float(charge))
        if umult:
            p["UHF"] = True
            mult = torch.full_like(mult, float(umult))
        mol = Molecule(Constants(), p, xyz, sp, charges=q, mult=mult)
        mol.verbose = False
        es = Electronic_Structure(p)
        es(mol)
        out["outcome"] = "returned"
        out["finite"] = bool(torch.isfinite(mol.Etot).all() and torch.isfinite(mol.force).all() and torch.isfinite(mol.q).all())
        out["flagged"] = bool(es.notconverged.any())
        out["Etot"] = float(mol.Etot[0])
    except Exception as ex:  # noqa
        out["outcome"] = "raised"
        out["cls"] = type(ex).__name__
        out["error"] = str(ex)[:200]
    return out


# requests outside the decision table's coordinates that must be refused (one implemented guard each)
PROBES = [
    dict(name="mixed active states without excited-state settings", mols=["h2o", "h2o"], active=[0, 1], expect="raise"),
    dict(name="mixed active states without excited-state settings (3)", mols=["h2o", "h2o", "h2o"], active=[1, 0, 0], expect="raise"),
    dict(name="H2 quartet (multiplicity = electrons + 2)", mols=["h2"], uhf=True, mult=4, expect="raise"),
    dict(name="H2+ triplet (multiplicity = electrons + 2)", mols=["h2"], uhf=True, mult=3, charge=1, expect="raise"),
    dict(name="H2O sextet beyond the electron count of a spin channel", mols=["hf", "h2"], uhf=True, mult=4, charge=0, expect="raise"),
    dict(name="H2O cation, restricted", mols=["h2o"], charge=1, expect="raise"),
    dict(name="batch [H2O, H2O+] restricted", mols=["h2o", "h2o"], charges=[0, 1], expect="raise"),
    dict(name="CH3+ closed shell", mols=["ch3"], charge=1, mult=1, expect="return"),
    dict(name="NH4+ closed shell", mols=["nh4+"], expect="return"),
    dict(name="H2O dication", mols=["h2o"], charge=2, expect="return"),
]


def run_probe(case):
    mdlib.use_stub(False)
    from harness import common

    common.quiet_stdio()
    out = {"name": case["name"], "expect": case["expect"]}
    try:
        p = mdlib.seqm_params(scf_eps=1e-6, scf_converger=[1])
        sp, xyz, q, mult = scf_driver.build_batch(case["mols"], displace=0.03)
        if "charge" in case:
            q = torch.full_like(q, float(case["charge"]))
        if "charges" in case:
            q = torch.tensor([float(c) for c in case["charges"]], dtype=q.dtype)
        if case.get("uhf"):
            p["UHF"] = True
        if "mult" in case:
            mult = torch.full_like(mult, float(case["mult"]))
        if "active" in case:
            p["active_state"] = torch.tensor(case["active"], dtype=torch.int64)
        mol = Molecule(Constants(), p, xyz, sp, charges=q, mult=mult)
        mol.verbose = False
        es = Electronic_Structure(p)
        es(mol)
        out["outcome"] = "returned"
        out["finite"] = bool(torch.isfinite(mol.Etot).all() and torch.isfinite(mol.force).all())
        out["flagged"] = bool(es.notconverged.any())
    except Exception as ex:  # noqa
        out["outcome"] = "raised"
        out["cls"] = type(ex).__name__
        out["error"] = str(ex)[:160]
    return out
