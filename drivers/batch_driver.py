"""Batch driver: compares the real Parser / pack / unpack with the index maps computed by the
Batch specification (exact integer comparison), and runs value-transparency jobs."""

import math
import types

import torch

from . import mdlib, scf_driver

import seqm.basics as basics  # noqa: E402
from seqm.seqm_functions.constants import Constants  # noqa: E402
from seqm.seqm_functions.pack import pack, unpack  # noqa: E402

KEYS = ["Z", "maskd", "atom_molid", "idxi", "idxj", "mask", "mask_l", "pair_molid"]


def parse_real(rec, pad_mode, uhf=True):
    sp = torch.tensor(rec["sp"], dtype=torch.int64)
    pos = torch.tensor(rec["pos"], dtype=torch.float64)
    real = sp > 0
    if pad_mode == "far":
        pos[~real] = 1.0e3
    elif pad_mode == "copy":
        for m in range(sp.shape[0]):
            pos[m][~real[m]] = pos[m][0].clone()
    elif pad_mode == "nan":
        pos[~real] = float("nan")
    cut = 1.0e10 if rec["cut2"] == 0 else math.sqrt(rec["cut2"])
    params = {"method": "AM1", "elements": [0, 1, 6, 7, 8, 9], "pair_outer_cutoff": cut, "UHF": uhf}
    const = Constants()
    mol = types.SimpleNamespace(coordinates=pos, species=sp, const=const, tot_charge=torch.zeros(sp.shape[0]), mult=torch.ones(sp.shape[0]) if not uhf else None)
    if uhf:
        # multiplicity that makes every row valid: singlet for even, doublet for odd electron counts
        nel = const.tore[sp].sum(dim=1)
        mol.mult = 1.0 + (nel % 2)
    out = basics.Parser(params)(mol, "AM1", return_mask_l=True)
    names = ["nmol", "molsize", "nSuperHeavy", "nHeavy", "nHydro", "nocc", "Z", "maskd", "atom_molid", "mask", "mask_l", "pair_molid", "ni", "nj", "idxi", "idxj", "xij", "rij"]
    return dict(zip(names, out))


def check_index_case(rec):
    """Returns list of mismatch descriptions for one exported batch."""
    bad = []
    for pad_mode in ("zero", "far", "copy"):
        try:
            got = parse_real(rec, pad_mode, uhf=True)
        except Exception as ex:  # noqa
            bad.append({"pad": pad_mode, "what": "raised", "error": f"{type(ex).__name__}: {ex}"})
            continue
        for k in KEYS:
            g = [int(x) for x in got[k].reshape(-1)]
            if g != list(rec[k]):
                bad.append({"pad": pad_mode, "what": k, "expected": rec[k], "got": g})
        if [int(x) for x in got["nHeavy"]] != list(rec["nheavy"]) or [int(x) for x in got["nHydro"]] != list(rec["nhydro"]):
            bad.append({"pad": pad_mode, "what": "nheavy/nhydro"})
        # UHF: nocc = (alpha, beta) with alpha+beta = n electrons, alpha-beta = mult-1
        tot = [int(a + b) for a, b in got["nocc"]]
        exp_tot = [2 * n + (1 if odd else 0) for n, odd in zip(rec["nocc"], _odd_rows(rec))]
        if tot != exp_tot:
            bad.append({"pad": pad_mode, "what": "nocc(UHF)", "expected": exp_tot, "got": tot})
        # ni/nj are Z at idxi/idxj; rij in atomic units of the lattice distance
        Z = got["Z"]
        if not torch.equal(got["ni"], Z[got["idxi"]]) or not torch.equal(got["nj"], Z[got["idxj"]]):
            bad.append({"pad": pad_mode, "what": "ni/nj"})
    # RHF verdict
    try:
        got = parse_real(rec, "zero", uhf=False)
        raised = False
        if [int(x) for x in got["nocc"]] != list(rec["nocc"]):
            bad.append({"what": "nocc(RHF)", "expected": rec["nocc"], "got": [int(x) for x in got["nocc"]]})
    except ValueError:
        raised = True
    if raised != bool(rec["odd"]):
        bad.append({"what": "rhf_parity_verdict", "expected_reject": rec["odd"], "raised": raised})
    return bad


def _odd_rows(rec):
    tore = {0: 0, 1: 1, 6: 4, 7: 5, 8: 6, 9: 7}
    return [sum(tore[z] for z in row) % 2 == 1 for row in rec["sp"]]


def check_pack(table, maxsize):
    """table[nh][ny][u] = packed index or -1.  Exact decode of pack/unpack on self-describing matrices."""
    bad = []
    size = 4 * maxsize
    X = torch.zeros(size, size, dtype=torch.float64)
    for r in range(size):
        for c in range(size):
            X[r, c] = 1000.0 * (r + 1) + (c + 1)
    combos = [(nh, ny) for nh in range(maxsize + 1) for ny in range(maxsize + 1 - nh) if nh + ny > 0]
    for nh, ny in combos:
        pm = table[nh][ny]
        norb = 4 * nh + ny
        nH, nY = torch.tensor(nh), torch.tensor(ny)
        x0 = pack(X, nH, nY)
        if tuple(x0.shape) != (norb, norb):
            bad.append({"what": "pack shape", "nh": nh, "ny": ny, "shape": list(x0.shape)})
            continue
        for u in range(size):
            for v in range(size):
                p, q = pm[u], pm[v]
                if p >= 0 and q >= 0 and x0[p, q] != X[u, v]:
                    bad.append({"what": "pack entry", "nh": nh, "ny": ny, "u": u, "v": v})
        back = unpack(x0, nH, nY, size)
        for u in range(size):
            for v in range(size):
                want = X[u, v] if (pm[u] >= 0 and pm[v] >= 0) else 0.0
                if back[u, v] != want:
                    bad.append({"what": "unpack entry", "nh": nh, "ny": ny, "u": u, "v": v})
    # batched paths: homogeneous and mixed
    for group in ([(1, 2), (1, 2)], [(1, 2), (0, 2)], [(2, 1), (1, 1), (0, 1)],
                  [(1, 4), (2, 0)], [(2, 0), (1, 4)], [(1, 4), (2, 0), (1, 3)], [(2, 1), (1, 5 - 1 - 0)][:1] + [(1, 4)], [(0, 4), (1, 0)]):   # equal packed size, different heavy/hydrogen split
        if any(nh + ny > maxsize for nh, ny in group):
            continue
        Xb = torch.stack([X * (k + 1) for k in range(len(group))])
        nH = torch.tensor([g[0] for g in group])
        nY = torch.tensor([g[1] for g in group])
        x0 = pack(Xb, nH, nY)
        back = unpack(x0, nH, nY, size)
        for k, (nh, ny) in enumerate(group):
            pm = table[nh][ny]
            for u in range(size):
                for v in range(size):
                    p, q = pm[u], pm[v]
                    phys = p >= 0 and q >= 0
                    if phys and x0[k, p, q] != Xb[k, u, v]:
                        bad.append({"what": "batched pack entry", "group": group, "k": k, "u": u, "v": v})
                    if back[k, u, v] != (Xb[k, u, v] if phys else 0.0):
                        bad.append({"what": "batched unpack entry", "group": group, "k": k, "u": u, "v": v})
            norb = 4 * nh + ny
            if x0.shape[1] > norb and (x0[k, norb:, :].abs().sum() != 0 or x0[k, :, norb:].abs().sum() != 0):
                bad.append({"what": "packed padding not zero", "group": group, "k": k})
    return bad[:20]


# ---- value transparency ------------------------------------------------------------------------


def run_values(job):
    """job: {mols:[names], order:[perm], extra_pad, pad_coord, params}.  Returns per-molecule outputs keyed
    by molecule name (in the batch and alone are separate jobs; the check compares them)."""
    mdlib.use_stub(False)
    from harness import common

    common.quiet_stdio()
    from seqm.ElectronicStructure import Electronic_Structure

    params = mdlib.seqm_params(**job.get("params", {}))
    names = [job["mols"][i] for i in job.get("order", range(len(job["mols"])))]
    mol = scf_driver.make(names, params, pad_coord=job.get("pad_coord", 0.0), extra_pad=job.get("extra_pad", 0))
    mol.verbose = False
    es = Electronic_Structure(params)
    es(mol)
    kernel = None
    if job.get("path") == "xlksa":
        # XL-BOMD energy with the Krylov / finite electronic temperature branch at an auxiliary density that is NOT the
        # converged one (perturbation seeded per molecule, so the same in a batch and alone): the kernel update is live
        import zlib

        P0 = mol.dm.clone()
        for k, nm in enumerate(names):
            norb = int(mol.norb[k])
            g = torch.Generator().manual_seed(77 + zlib.crc32(nm.encode()) % 100000)
            n4 = 4 * len(scf_driver.MOLS[nm][0])
            d = 0.01 * (torch.rand((n4, n4), generator=g, dtype=P0.dtype) - 0.5)
            d = (d + d.T) * (P0[k, :n4, :n4] != 0).to(P0.dtype)
            P0[k, :n4, :n4] += d
        es(mol, P0=P0, dm_prop="XL-BOMD", xl_bomd_params={"k": 5, "max_rank": int(job.get("max_rank", 2)), "err_threshold": 0.0, "T_el": float(job.get("T_el", 8000.0))})
        kernel = mol.dP2dt2.detach()
    out = {}
    for k, nm in enumerate(names):
        n = len(scf_driver.MOLS[nm][0])
        norb = int(mol.norb[k])
        o = {
            "Etot": float(mol.Etot[k]),
            "Hf": float(mol.Hf[k]),
            "force": [float(x) for x in mol.force[k, :n].reshape(-1)],
            "q": [float(x) for x in mol.q[k, :n]],
            "gap": [float(x) for x in mol.e_gap[k].reshape(-1)],
            "e_mo": [float(x) for x in mol.e_mo[k].reshape(-1)[:norb]] if mol.e_mo.dim() == 2 else [],
            "dipole": [float(x) for x in mol.dipole[k]] if mol.dipole is not None else [],
            "pad_force": float(mol.force[k, n:].abs().max()) if mol.force.shape[1] > n else 0.0,
            "flag": bool(es.notconverged[k]) if job.get("path") != "xlksa" else False,
        }
        if mol.cis_energies is not None:
            o["cis"] = [float(x) for x in mol.cis_energies[k]]
        if kernel is not None:
            n4 = 4 * n
            o["kernel"] = [float(x) for x in kernel[k, :n4, :n4].reshape(-1)]
            o["krylov_error"] = float(mol.Krylov_Error[k]) if torch.is_tensor(getattr(mol, "Krylov_Error", None)) else -1.0
        out[nm] = o
    return out


def run_relabel(job):
    """Same-element relabelling: the atoms of equal atomic number of every molecule are permuted (rows stay sorted by atomic
    number); scalars must not change, per-atom outputs must follow the permutation."""
    mdlib.use_stub(False)
    from harness import common

    common.quiet_stdio()
    import random

    from seqm.ElectronicStructure import Electronic_Structure
    from seqm.Molecule import Molecule
    from seqm.seqm_functions.constants import Constants

    params = mdlib.seqm_params(**job.get("params", {}))
    sp, xyz, q, mult = scf_driver.build_batch(job["mols"], displace=0.1)
    rng = random.Random(job.get("seed", 0))
    perm = []
    for m in range(sp.shape[0]):
        idx = list(range(sp.shape[1]))
        for z in set(int(v) for v in sp[m] if v > 0):
            pos = [i for i in idx if int(sp[m, i]) == z]
            sh = pos[:]
            if len(pos) > 1:
                while sh == pos:
                    rng.shuffle(sh)
            for a, b in zip(pos, sh):
                idx[a] = b
        perm.append(idx)
    P = torch.tensor(perm)
    xyz2 = torch.stack([xyz[m][P[m]] for m in range(sp.shape[0])])
    res = []
    for coords in (xyz, xyz2):
        pp = dict(params)
        mol = Molecule(Constants(), pp, coords.clone(), sp.clone(), charges=q, mult=mult)
        mol.verbose = False
        es = Electronic_Structure(pp)
        es(mol)
        res.append(mol)
    a, b = res
    out = {"moved": int(sum(1 for m in range(len(perm)) for i, j in enumerate(perm[m]) if i != j))}
    out["Etot"] = float((a.Etot - b.Etot).abs().max())
    out["gap"] = float((a.e_gap - b.e_gap).abs().max())
    out["e_mo"] = float((a.e_mo - b.e_mo).abs().max())
    fa = torch.stack([a.force[m][P[m]] for m in range(sp.shape[0])])
    qa = torch.stack([a.q[m][P[m]] for m in range(sp.shape[0])])
    out["force"] = float((fa - b.force).abs().max())
    out["q"] = float((qa - b.q).abs().max())
    if a.dipole is not None:
        out["dipole"] = float((a.dipole - b.dipole).abs().max())
    if a.cis_energies is not None:
        out["cis"] = float((a.cis_energies - b.cis_energies).abs().max())
    return out


def run_md(job):
    """A few BOMD steps (real electronic structure, supplied velocities seeded per molecule, periodic COM removal) of a batch;
    returns the end point per molecule so that a molecule in a batch can be compared with the same molecule alone."""
    import os
    import zlib

    mdlib.use_stub(False)
    from harness import common

    common.quiet_stdio()
    from .mdlib import MDmod

    params = mdlib.seqm_params(scf_eps=1.0e-10, scf_converger=[1])
    names = [job["mols"][i] for i in job.get("order", range(len(job["mols"])))]
    mol = scf_driver.make(names, params, pad_coord=job.get("pad_coord", 0.0), extra_pad=job.get("extra_pad", 0), displace=0.05)
    mol.verbose = False
    v = torch.zeros_like(mol.coordinates)
    for k, nm in enumerate(names):
        n = len(scf_driver.MOLS[nm][0])
        g = torch.Generator().manual_seed(31 + zlib.crc32(nm.encode()) % 100000)
        v[k, :n] = 0.01 * (torch.rand((n, 3), generator=g, dtype=torch.float64) - 0.5)
    mol.velocities = v
    os.makedirs(job["workdir"], exist_ok=True)
    out = {"molid": [], "prefix": os.path.join(job["workdir"], "md"), "print every": 0, "checkpoint every": 0, "xyz": 0, "h5": {}}
    eng = job.get("engine", "basic")
    kw = dict(seqm_parameters=params, timestep=0.4, Temp=0.0, output=out)
    md = MDmod.Molecular_Dynamics_Basic(**kw) if eng == "basic" else MDmod.XL_BOMD(xl_bomd_params={"k": 3}, damp=None, **kw)
    rk = {}
    if job.get("com"):
        rk["remove_com"] = (job["com"][0], int(job["com"][1]))
    md.run(mol, steps=int(job.get("steps", 4)), **rk)
    res = {}
    for k, nm in enumerate(names):
        n = len(scf_driver.MOLS[nm][0])
        res[nm] = {"x": [float(c) for c in mol.coordinates[k, :n].reshape(-1)], "v": [float(c) for c in mol.velocities[k, :n].reshape(-1)],
                   "pad_v": float(mol.velocities[k, n:].abs().max()) if mol.velocities.shape[1] > n else 0.0}
    return res
