"""XL-BOMD history binding: records how the real one_step / _propagate_P / run_from_checkpoint
use the history buffer (one-hot decoding of the applied weights, slot written, slot resumed)."""

import os
import sys
import types

import torch

from . import mdlib
from .mdlib import MDmod, _verif

SCALE = 100000


def _toint(x, what, problems):
    v = float(x) * SCALE
    r = round(v)
    if abs(v - r) > 1e-6:
        problems.append(f"{what}: {float(x)!r} is not a multiple of 1e-5 within 1e-11")
    return int(r)


class _Spy(torch.Tensor):
    """Tensor that remembers the indices assigned through ``t[idx] = value``."""

    writes = []
    reads = []

    def __setitem__(self, idx, value):
        _Spy.writes.append(idx)
        return super().__setitem__(idx, value)

    def __getitem__(self, idx):
        if isinstance(idx, int):
            _Spy.reads.append(idx)
        return super().__getitem__(idx)


def install(events, problems):
    """Wrap XL_BOMD.one_step and the _propagate_P of both classes (in this process only)."""
    state = {"first": True}

    def wrap_prop(cls):
        orig = cls.__dict__["_propagate_P"]

        def _propagate_P(self, P, Pt, cindx, molecule):
            m = self.m
            n = m + 2
            Pt1 = torch.zeros(m, 1, 1, n, dtype=Pt.dtype)
            for j in range(m):
                Pt1[j, 0, 0, j] = 1.0
            eD = torch.zeros(1, 1, n, dtype=Pt.dtype)
            eD[0, 0, m] = 1.0
            eP = torch.zeros(1, 1, n, dtype=Pt.dtype)
            eP[0, 0, m + 1] = 1.0
            fake = types.SimpleNamespace(dm=eD, dP2dt2=eD)
            dec = orig(self, eP, Pt1, cindx, fake)[0, 0]
            state["decoded"] = {
                "cindx": int(cindx),
                "w": [_toint(dec[j], f"weight slot {j}", problems) for j in range(m)],
                "wd": _toint(dec[m], "weight of D", problems),
                "wp": _toint(dec[m + 1], "weight of P", problems),
            }
            return orig(self, P, Pt, cindx, molecule)

        cls._propagate_P = _propagate_P

    wrap_prop(MDmod.XL_BOMD)
    wrap_prop(MDmod.KSA_XL_BOMD)
    orig_step = MDmod.XL_BOMD.one_step

    def one_step(self, molecule, step, P, Pt, *a, **kw):
        if state["first"]:
            state["first"] = False
            if self.step_offset > 0:
                reads = list(state.get("resume_reads", []))  # (before our own indexing below adds to it)
                plain = Pt.as_subclass(torch.Tensor)
                same = [j for j in range(self.m) if torch.equal(plain[j], P.as_subclass(torch.Tensor))]
                if len(same) == 1:
                    slot = same[0]
                elif len(reads) >= 1 and len(set(reads)) == 1 and reads[0] in same:
                    slot = reads[0]  # several slots hold identical values (fixed point): use the index run_from_checkpoint read
                else:
                    slot = -1 - len(same)
                events.append({"name": "resume", "done": int(self.step_offset), "slot": slot})
        before = Pt.clone()
        _Spy.writes = []
        out = orig_step(self, molecule, step, P, Pt.as_subclass(_Spy), *a, **kw)
        Pn, Ptn = out[0].as_subclass(torch.Tensor), out[1].as_subclass(torch.Tensor)
        out = (Pn, Ptn) + tuple(out[2:])
        changed = [j for j in range(self.m) if not torch.equal(before[j], Ptn[j])]
        wr = [int(w) for w in _Spy.writes if isinstance(w, int) or (torch.is_tensor(w) and w.numel() == 1)]
        if len(wr) == 1 and all(j == wr[0] for j in changed):
            slot = wr[0]
        else:
            slot = changed[0] if len(changed) == 1 else -1 - len(changed)
        if slot >= 0 and not torch.equal(Ptn[slot], Pn):
            problems.append(f"step {step}: written slot {slot} does not hold the new P")
        d = state.get("decoded", {})
        events.append({"name": "prop", "step": int(step), "cindx": d.get("cindx", -1), "w": d.get("w", []), "wd": d.get("wd", -1), "wp": d.get("wp", -1), "slot": slot})
        return out

    MDmod.XL_BOMD.one_step = one_step
    orig_load = MDmod.Molecular_Dynamics_Basic._load_checkpoint_base

    def _load(path, device=None):
        out = orig_load(path, device=device)
        ck = out[0]
        if isinstance(ck.get("xl_ctx"), dict) and torch.is_tensor(ck["xl_ctx"].get("Pt")):
            ck["xl_ctx"]["Pt"] = ck["xl_ctx"]["Pt"].as_subclass(_Spy)
            _Spy.reads = []
            state["resume_reads"] = _Spy.reads
        return out

    MDmod.Molecular_Dynamics_Basic._load_checkpoint_base = staticmethod(_load)


def run(case, workdir):
    """Run one XL case (fresh + optional crash/resume) in forked grandchildren; returns a trace."""
    os.makedirs(workdir, exist_ok=True)
    import json

    segs = []
    seg = 0
    crash = case.get("crash")  # loop index i after whose checkpoint the process dies, or None
    while True:
        epath = os.path.join(workdir, f"ev.{seg}.json")
        sys.stdout.flush()
        pid = os.fork()
        if pid == 0:
            code = 0
            try:
                events, problems = [], []
                install(events, problems)

                def sink(rec):
                    if rec["ev"] == "md.ckpt_replace":
                        events.append({"name": "ckpt", "done": int(rec["step_done"])})

                plan = None
                if seg == 0 and crash is not None:
                    plan = "md.ckpt_replace@step_done=%d:%s" % (crash + 1, case.get("kind", "hard"))
                mdlib.use_stub(True)
                _verif.configure(trace=None, crash=plan, sink=sink)
                devnull = os.open(os.devnull, os.O_WRONLY)
                os.dup2(devnull, 1)
                status = "finished"

                def dump():
                    with open(epath, "w") as fh:
                        json.dump({"events": events, "problems": problems}, fh)

                # events must survive a hard crash: dump after every event via the sink
                orig_sink = sink

                def sink2(rec):
                    orig_sink(rec)
                    dump()

                _verif.configure(trace=None, crash=plan, sink=sink2)
                try:
                    if seg == 0:
                        md, mol, kw = mdlib.build_md(case, os.path.join(workdir, "md"))
                        md.run(mol, **kw)
                    else:
                        MDmod.Molecular_Dynamics_Basic.run_from_checkpoint(os.path.join(workdir, "md.restart.pt"))
                except _verif.VerifCrash:
                    status = "soft"
                dump()
                code = 0 if status == "finished" else 10
            except BaseException:
                import traceback

                with open(os.path.join(workdir, f"error.{seg}.txt"), "w") as fh:
                    fh.write(traceback.format_exc())
                code = 11
            finally:
                os._exit(code)
        _, st = os.waitpid(pid, 0)
        code = os.waitstatus_to_exitcode(st)
        data = {"events": [], "problems": []}
        if os.path.exists(epath):
            with open(epath) as fh:
                data = json.load(fh)
        segs.append((code, data))
        if code == 11:
            err = open(os.path.join(workdir, f"error.{seg}.txt")).read()[-1500:]
            return {"error": err}
        if code == 0:
            break
        seg += 1
        if seg > 3:
            return {"error": "too many segments"}
    ev = []
    problems = []
    for n, (code, data) in enumerate(segs):
        ev += data["events"]
        problems += data["problems"]
        if code != 0:
            ev.append({"name": "crash"})
    return {"trace": {"id": case["id"], "k": int(case["k"]), "ksa": case["engine"] == "ksa", "ev": ev}, "problems": problems}


def table(k, engine="xl"):
    """Coefficient table of a real object, as integers (1e-5 units)."""
    mdlib.use_stub(True)
    case = dict(engine=engine, k=k, system="h2", cad={}, steps=1)
    md, mol, kw = mdlib.build_md(case, "/nonexistent/md")
    problems = []
    m = k + 1
    coeff = md.coeff.detach()
    return {
        "k": k,
        "m": int(md.m),
        "kappa": _toint(md.kappa, "kappa", problems),
        "alpha": _toint(md.alpha, "alpha", problems),
        "coeff_D": _toint(md.coeff_D, "coeff_D", problems),
        "tmp": [_toint(coeff[j], f"coeff[{j}]", problems) for j in range(m)],
        "repeat_ok": bool(torch.equal(coeff[:m], coeff[m:])) and coeff.numel() == 2 * m,
        "problems": problems,
    }
