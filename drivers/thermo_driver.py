"""Thermostat driver: measures the whole-step stochastic velocity map of the real engines.

With zero forces one MD step is affine in the velocities and in the normal draws:
    v' = a v + SUM_k g_k xi_k .
`a` and `g_k` are measured per atom through the public run() (one step, user-supplied velocities,
torch.randn_like replaced by a selector pattern) and logged as fixed-point integers for TLC."""

import os

import torch

from . import mdlib
from .mdlib import MDmod

# the driver's own unit literals (see vv_driver): kT/m in (Angstrom/fs)^2 = T / TEMP / m * ACC
ACC = 0.009648532800137615
TEMP = 1.160451812e4
CLIP = 2000000000


def fx9(x):
    x = float(x)
    if x != x:
        return CLIP
    return int(max(-CLIP, min(CLIP, round(x * 1.0e9))))


def _one_step(md, system, params, v0, pattern):
    """One step of md on a fresh molecule of `system`; pattern[k] = value every normal variate of draw k takes."""
    mol = mdlib.make_molecule(system, params)
    real = (mol.species > 0).unsqueeze(-1).to(torch.float64)
    mol.velocities = v0 * real * torch.ones_like(mol.coordinates)
    calls = {"n": 0}
    orig = torch.randn_like

    def randn_like(t, *a, **k):
        q = calls["n"]
        calls["n"] += 1
        return torch.full_like(t, float(pattern[q]) if q < len(pattern) else 0.0)

    torch.randn_like = randn_like
    try:
        md.run(mol, steps=1, reuse_P=True, seed=5)
    finally:
        torch.randn_like = orig
    return mol, calls["n"]


def run_job(job):
    """job: {id, engine, dt, seq: [{system, temp, damp}, ...]}: ONE driver object, reconfigured and re-run along seq."""
    from harness import common

    common.quiet_stdio()
    mdlib.use_stub(True)
    mdlib.StubES.K = 0.0
    mdlib.StubES.sensitive = False
    wd = job["workdir"]
    os.makedirs(wd, exist_ok=True)
    first = job["seq"][0]
    case = dict(engine=job["engine"], system=first["system"], steps=1, cad={}, molid=[0], xyz=0, ckpt=0, print=0, dt=job["dt"], temp=first["temp"], damp=first["damp"], k=3,
                params=job.get("params", {}))
    md, _, _ = mdlib.build_md(case, os.path.join(wd, "md"))
    params = mdlib.seqm_params(**job.get("params", {}))
    recs = []
    operator_level = job["engine"] == "fssh"
    if operator_level:
        # surface hopping needs real excited states (forces are not zero): the inherited O operator itself is measured
        # after a zero-step run() has initialised the driver on the batch
        mdlib.use_stub(False)
        md, _, _ = mdlib.build_md(case, os.path.join(wd, "md"))
    for n, c in enumerate(job["seq"]):
        if n > 0:
            md.Temp = c["temp"]
            md.damp = c["damp"]
        inf = c["damp"] == float("inf")
        if operator_level:
            mol = mdlib.make_molecule(c["system"], params)
            md.run(mol, steps=0, reuse_P=True, seed=5)
            real = (mol.species > 0).unsqueeze(-1).to(torch.float64)
            orig = torch.randn_like
            try:
                torch.randn_like = lambda t, *a_, **k_: torch.zeros_like(t)
                mol.velocities = 0.01 * real * torch.ones_like(mol.coordinates)
                md._apply_langevin_thermostat(mol)
                a = mol.velocities / 0.01
                molB = mol
                torch.randn_like = lambda t, *a_, **k_: torch.ones_like(t)
                mol.velocities = torch.zeros_like(mol.coordinates)
                md._apply_langevin_thermostat(mol)
                gains = [mol.velocities.clone()]
                mol.velocities = torch.zeros_like(mol.coordinates)
            finally:
                torch.randn_like = orig
            draws = 1
            # one real step of the engine: how many normal draws it makes and whether they are independent draws
            rec_draws = []

            def rec(t, *a_, **k_):
                o_ = orig(t, *a_, **k_)
                rec_draws.append(o_.detach().clone())
                return o_

            torch.randn_like = rec
            try:
                # (a fresh engine object: a surface-hopping object keeps per-trajectory electronic state of its first batch)
                mds, mol2, _ = mdlib.build_md(dict(case, system=c["system"], temp=c["temp"], damp=c["damp"]), os.path.join(wd, "mds%d" % n))
                mol2.velocities = torch.zeros_like(mol2.coordinates)      # supplied: no draw for the initial velocities
                mds.run(mol2, steps=1, reuse_P=True, seed=5)
            finally:
                torch.randn_like = orig
            stepinfo = {"stepdraws": len(rec_draws), "distinct": bool(len(rec_draws) < 2 or all(float((rec_draws[i] - rec_draws[j]).abs().max()) > 0 for i in range(len(rec_draws)) for j in range(i)))}
        else:
            molB, draws = _one_step(md, c["system"], params, 0.01, [0.0] * 8)
            a = molB.velocities / 0.01
            gains = []
            for k in range(draws):
                pat = [0.0] * draws
                pat[k] = 1.0
                molA, _ = _one_step(md, c["system"], params, 0.0, pat)
                gains.append(molA.velocities.clone())
        species = molB.species
        mass = molB.mass
        for m in range(species.shape[0]):
            padv = 0.0
            for at in range(species.shape[1]):
                if species[m, at] == 0:
                    padv = max(padv, float(molB.velocities[m, at].abs().max()), *[float(g[m, at].abs().max()) for g in gains] or [0.0])
            for at in range(species.shape[1]):
                if species[m, at] == 0:
                    continue
                av = a[m, at]
                gs = [g[m, at] for g in gains]
                a0 = float(av[0])
                iso = max([float((av - av[0]).abs().max())] + [float((g - g[0]).abs().max() / (g[0].abs() + 1e-300)) if float(g.abs().max()) > 0 else 0.0 for g in gs])
                nvar = sum(float(g[0]) ** 2 for g in gs)
                ratio = -1.0
                if c["temp"] > 0 and not inf and 1.0 - a0 * a0 > 0:
                    sigma2 = c["temp"] / TEMP / float(mass[m, at, 0]) * ACC
                    ratio = nvar / (sigma2 * (1.0 - a0 * a0))
                extra = stepinfo if operator_level else {"stepdraws": int(draws), "distinct": True}
                if inf or c["temp"] == 0.0:
                    extra = dict(extra, distinct=True)       # no noise requested: nothing to compare
                recs.append({
                    "stepdraws": int(extra["stepdraws"]), "distinct": bool(extra["distinct"]),
                    "id": f"{job['id']}/{n}/{m}/{at}", "engine": job["engine"], "run": n, "level": "operator" if operator_level else "step", "temp": int(round(c["temp"])), "inf": bool(inf), "draws": int(draws),
                    "a9": fx9(a0), "ratio9": fx9(ratio), "gsum9": fx9(sum(float(g.abs().max()) for g in gs)), "iso9": fx9(iso), "pad9": fx9(padv),
                    "z": int(species[m, at]), "dt_over_damp": (0.0 if inf else job["dt"] / c["damp"]),
                })
    return recs
