"""Exact replay of VVExact behaviours on the real integrators (stub ES = exact linear springs)."""

import os
import types
from fractions import Fraction

import h5py
import numpy as np
import torch

from . import mdlib
from .mdlib import MDmod

# the driver's OWN literals (a changed constant in the code shows up as a mismatch)
ACC = 0.009648532800137615
KE = 1.0364270099032438e2
TEMP = 1.160451812e4


class SpringES(torch.nn.Module):
    K = 1.0
    G = (0.0, 0.0, 0.0)

    def __init__(self, seqm_parameters, *a, **k):
        super().__init__()
        self.device = torch.device("cpu")
        self.conservative_force = types.SimpleNamespace(energy=types.SimpleNamespace(md=False, excited_states=None, hamiltonian=types.SimpleNamespace(eps=None)))

    def forward(self, molecule, learned_parameters=None, xl_bomd_params=None, P0=None, dm_prop="SCF", cis_amp=None, **kw):
        x = molecule.coordinates.detach()
        nmol, n, _ = x.shape
        g = torch.tensor(self.G, dtype=x.dtype)
        F = g.reshape(1, 1, 3) - self.K * (n * x - x.sum(dim=1, keepdim=True))
        d = x.unsqueeze(2) - x.unsqueeze(1)
        V = 0.25 * self.K * (d * d).sum(dim=(1, 2, 3)) - (x * g.reshape(1, 1, 3)).sum(dim=(1, 2))
        molecule.force = F / ACC
        molecule.Etot = V
        molecule.dm = torch.zeros(nmol, 4 * n, 4 * n, dtype=x.dtype)
        molecule.e_gap = torch.ones(nmol, dtype=x.dtype)
        molecule.dipole = torch.zeros(nmol, 3, dtype=x.dtype)
        molecule.q = torch.zeros(nmol, n, dtype=x.dtype)
        molecule.Electronic_entropy = torch.zeros(nmol, dtype=x.dtype)
        molecule.dP2dt2 = torch.zeros_like(molecule.dm)


def fr(vec, e):
    return [[Fraction(int(c), 2 ** int(e)) for c in p] for p in vec]


def replay(rec):
    """rec: one exported VVExact behaviour (+ "workdir", "engine_cls": basic|langevin|xl).
    Optional run variants (NVE only):
      rec["cad"]   = {"data": n, "vec": n, "print": n, "xyz": n}    output cadences (default all streams every step)
      rec["mates"] = [behaviours with the same np, k, g]            run as one batch; rec["molid"] = rows to write
      rec["com"]   = [mode, stride], rec["shift"] = [dx, dy, dz]    periodic COM removal on a geometry away from the origin"""
    from harness import common

    common.quiet_stdio()
    MDmod.esdriver = SpringES
    SpringES.K = float(rec["k"])
    SpringES.G = tuple(float(c) for c in rec["g"])
    npart = rec["np"]
    wd = rec["workdir"]
    os.makedirs(wd, exist_ok=True)
    params = mdlib.seqm_params()
    from seqm.Molecule import Molecule
    from seqm.seqm_functions.constants import Constants

    rows = [rec] + list(rec.get("mates", []))
    nb = len(rows)
    shift = torch.tensor(rec.get("shift", [0.0, 0.0, 0.0]), dtype=torch.float64)
    x0 = torch.tensor([[[float(c) for c in p] for p in r["hist"][0]["x"]] for r in rows], dtype=torch.float64) + shift
    v0 = torch.tensor([[[float(c) for c in p] for p in r["hist"][0]["v"]] for r in rows], dtype=torch.float64)
    species = torch.ones(nb, npart, dtype=torch.int64)
    mol = Molecule(Constants(), params, x0.clone(), species, charges=npart % 2)  # even electron count
    masses = torch.tensor([r["m"] for r in rows], dtype=torch.float64).reshape(nb, npart, 1)
    mol.mass = masses.clone()
    mol.mass_inverse = 1.0 / masses
    mol.velocities = v0.clone()
    steps = len(rec["hist"]) - 1
    cad = rec.get("cad") or {}
    molid = list(rec.get("molid", [0]))
    vec = int(cad.get("vec", 1))
    out = {"molid": molid, "prefix": os.path.join(wd, "md"), "print every": int(cad.get("print", 0)), "checkpoint every": 0, "xyz": int(cad.get("xyz", 0)),
           "h5": {"data": int(cad.get("data", 1)), "coordinates": vec, "velocities": vec, "forces": vec}}
    eng = rec.get("engine_cls", "basic" if rec["engine"] == "nve" else "langevin")
    common_kw = dict(seqm_parameters=params, timestep=0.5, Temp=0.0, output=out)
    calls = {"q": 0}
    if eng == "basic":
        md = MDmod.Molecular_Dynamics_Basic(**common_kw)
    else:
        if eng == "langevin":
            md = MDmod.Molecular_Dynamics_Langevin(damp=1.0, **common_kw)
        else:
            md = MDmod.XL_BOMD(damp=1.0, xl_bomd_params={"k": 3}, **common_kw)
        orig_init = md.initialize

        def initialize(molecule, *a, **k):
            r = orig_init(molecule, *a, **k)
            md.langevin_c1 = torch.tensor(1.0 if rec["c1"] == "one" else 0.5, dtype=torch.float64)
            md.langevin_c2 = float(rec["amp"]) / masses
            return r

        md.initialize = initialize
        pat = int(rec["pat"])

        def randn_like(t, *a, **k):
            q = calls["q"]
            calls["q"] += 1
            o = torch.empty_like(t)
            for i in range(t.shape[1]):
                for d in range(3):
                    o[:, i, d] = 1.0 if (q * pat + (i + 1) + (d + 1)) % 2 == 0 else -1.0
            return o

        torch.randn_like = randn_like
    rk = {}
    comlog = []
    phase = []
    if rec.get("com"):
        rk["remove_com"] = (rec["com"][0], int(rec["com"][1]))
        orig_zero = md._zero_com

        def moments(molecule):
            m = molecule.mass
            P = (m * molecule.velocities).sum(dim=1)
            rc = (m * molecule.coordinates).sum(dim=1, keepdim=True) / m.sum(dim=1, keepdim=True)
            Lc = (m * torch.linalg.cross(molecule.coordinates - rc, molecule.velocities, dim=2)).sum(dim=1)
            Lo = (m * torch.linalg.cross(molecule.coordinates, molecule.velocities, dim=2)).sum(dim=1)
            return [float(c) for c in P[0]], [float(c) for c in Lc[0]], [float(c) for c in Lo[0]]

        def zero_com(molecule, *a, **k):
            ek0 = [float(e) for e in md._kinetic_energy(molecule)]
            r = orig_zero(molecule, *a, **k)
            P, Lc, Lo = moments(molecule)
            comlog.append({"after_steps": len(phase), "P": P, "Lc": Lc, "ek0": ek0, "ek1": [float(e) for e in md._kinetic_energy(molecule)], "angular": bool(k.get("remove_angular", a[0] if a else True))})
            return r

        md._zero_com = zero_com
        orig_step = md._do_integrator_step

        def do_step(i, molecule, *a, **k):
            r = orig_step(i, molecule, *a, **k)
            P, Lc, Lo = moments(molecule)
            phase.append({"i": i, "P": P, "Lc": Lc, "Lo": Lo})
            return r

        md._do_integrator_step = do_step
    if rec.get("warm") == "md":
        # the SAME engine object first serves another run (other molecule object, linear COM removal, other output files)
        molw = Molecule(Constants(), params, x0.clone() + 0.25, species, charges=npart % 2)
        molw.mass = masses.clone()
        molw.mass_inverse = 1.0 / masses
        molw.velocities = v0.clone() + 0.001
        keep = md.output_config.prefix
        md.output_config.prefix = os.path.join(wd, "warm")
        md.run(molw, steps=2, remove_com=("linear", 1))
        md.output_config.prefix = keep
    if rec.get("warm") == "mol":
        # the SAME molecule object was propagated before; coordinates and velocities are put back, the force is discarded
        keep = md.output_config.prefix
        md.output_config.prefix = os.path.join(wd, "warm")
        md.run(mol, steps=2)
        md.output_config.prefix = keep
        with torch.no_grad():
            mol.coordinates.copy_(x0)
        mol.velocities = v0.clone()
        mol.force = None
    md.run(mol, steps=steps, **rk)
    ndof_model = 3.0 * npart - (0.0 if not rec.get("com") else (3.0 if rec["com"][0] == "linear" else 3.0 + (3.0 if npart > 2 else 2.0 if npart == 2 else 0.0)))
    res = {"draws": calls["q"], "n_dof": ndof_model if eng == "basic" else (float(md.n_dof.reshape(-1)[0]) if torch.is_tensor(md.n_dof) else float(md.n_dof)), "files": {}, "com": comlog, "phase": phase}
    scale = float((masses[0] * (v0[0].abs() + 1e-3)).sum())
    res["pscale"] = scale
    res["lscale"] = float((masses[0] * (x0[0].abs().sum(dim=1, keepdim=True) + 1.0) * (v0[0].abs().sum(dim=1, keepdim=True) + 1e-3)).sum())
    for mid in molid:
        f = {}
        with h5py.File(os.path.join(wd, "md.%d.h5" % mid), "r") as h5:
            f["x"] = (h5["coordinates/values"][()] - shift.numpy()).tolist()
            f["v"] = h5["velocities/values"][()].tolist()
            f["f"] = h5["forces/values"][()].tolist()
            f["Ek"] = h5["data/thermo/Ek"][()].tolist()
            f["Ep"] = h5["data/thermo/Ep"][()].tolist()
            f["T"] = h5["data/thermo/T"][()].tolist()
            f["labels"] = {k: h5[k + "/steps"][()].tolist() for k in ("coordinates", "velocities", "forces", "data")}
        xyzp = os.path.join(wd, "md.%d.xyz" % mid)
        if os.path.exists(xyzp):
            f["xyz"] = open(xyzp).read()
        res["files"][str(mid)] = f
    res.update(res["files"][str(molid[0])])
    return res


def expected(rec):
    """Exact values (floats from Fractions) for every step of the behaviour."""
    m = [Fraction(int(a)) for a in rec["m"]]
    K = Fraction(int(rec["k"]))
    g = [Fraction(int(c)) for c in rec["g"]]
    out = {"x": [], "v": [], "f": [], "Ek": [], "Ep": []}
    n = rec["np"]
    for h in rec["hist"]:
        x = fr(h["x"], h["e"])
        v = fr(h["v"], h["e"])
        F = [[g[d] - K * (n * x[i][d] - sum(x[j][d] for j in range(n))) for d in range(3)] for i in range(n)]
        ek = sum(m[i] * v[i][d] ** 2 for i in range(n) for d in range(3)) / 2
        V = K * sum((x[i][d] - x[j][d]) ** 2 for i in range(n) for j in range(i + 1, n) for d in range(3)) / 2 - sum(g[d] * x[i][d] for i in range(n) for d in range(3))
        out["x"].append([[float(c) for c in p] for p in x])
        out["v"].append([[float(c) for c in p] for p in v])
        out["f"].append([[float(c) / ACC for c in p] for p in F])
        out["Ek"].append(float(ek) * KE)
        out["Ep"].append(float(V))
    return out


def _close(a, b, rtol=1e-11):
    a, b = np.asarray(a, dtype=float), np.asarray(b, dtype=float)
    return a.shape == b.shape and bool(np.all(np.abs(a - b) <= rtol * (1.0 + np.abs(b))))


def compare_file(rec, f, n_dof, cad=None, rtol=1e-11):
    """Rows of one molecule's HDF5 file against the exact behaviour `rec`, each row for its own step label."""
    exp = expected(rec)
    bad = []
    steps = len(rec["hist"]) - 1
    cad = cad or {}
    want = {k: [s for s in range(steps + 1) if s % int(cad.get("vec", 1)) == 0] for k in ("coordinates", "velocities", "forces")}
    want["data"] = [s for s in range(steps + 1) if s % int(cad.get("data", 1)) == 0]
    for k in want:
        if f["labels"][k] != want[k]:
            bad.append({"what": "labels", "stream": k, "got": f["labels"][k], "expected": want[k]})
    if bad:
        return bad
    for n, s in enumerate(want["coordinates"]):
        for name in ("x", "v", "f"):
            if not _close(f[name][n], exp[name][s], rtol):
                bad.append({"what": name, "step": s, "got": f[name][n], "exact": exp[name][s]})
    for n, s in enumerate(want["data"]):
        if not _close(f["Ek"][n], exp["Ek"][s], rtol):
            bad.append({"what": "Ek", "step": s, "got": f["Ek"][n], "exact": exp["Ek"][s]})
        if not _close(f["Ep"][n], exp["Ep"][s], rtol):
            bad.append({"what": "Ep", "step": s, "got": f["Ep"][n], "exact": exp["Ep"][s]})
        tex = exp["Ek"][s] * TEMP / (0.5 * n_dof)
        if not _close(f["T"][n], tex, rtol):
            bad.append({"what": "T", "step": s, "got": f["T"][n], "exact": tex})
    if "xyz" in f:
        # XYZ comment line: step label and total energy of the frame's own phase point
        import re

        frames = [(int(a), float(b)) for a, b in re.findall(r"step:\s*(\d+)\s+E_total\s*=\s*([-+0-9.eE]+)", f["xyz"])]
        k = int(cad.get("xyz", 0))
        labels = [0] + [s for s in range(1, steps + 1) if k and s % k == 0]
        if [a for a, _ in frames] != labels:
            bad.append({"what": "xyz frame labels", "got": [a for a, _ in frames], "expected": labels})
        else:
            for s, e in frames:
                etot = exp["Ek"][s] + exp["Ep"][s]
                if abs(e - etot) > 1.0e-9 + 1e-11 * abs(etot):
                    bad.append({"what": "xyz E_total", "step": s, "got": e, "exact": etot})
    return bad


def compare(rec, res, rtol=1e-11):
    bad = []
    rows = [rec] + list(rec.get("mates", []))
    for mid in rec.get("molid", [0]):
        for b in compare_file(rows[mid], res["files"][str(mid)], res["n_dof"], rec.get("cad"), rtol):
            b["molid"] = mid
            bad.append(b)
    steps = len(rec["hist"]) - 1
    if rec["engine"] != "nve" and res["draws"] != 2 * steps:
        bad.append({"what": "noise draws", "got": res["draws"], "expected": 2 * steps})
    return bad[:6]


def compare_com(rec, res, tol=1e-12):
    """COM-removal variant (springs only, no field): momenta are constants of the motion between removals
    and vanish right after one; a removal keeps the kinetic energy."""
    bad = []
    mode, stride = rec["com"][0], int(rec["com"][1])
    ps, ls = res["pscale"], res["lscale"]
    steps = len(rec["hist"]) - 1
    want = [i + 1 for i in range(steps) if i % stride == 0]
    if [c["after_steps"] for c in res["com"]] != want:
        bad.append({"what": "com schedule", "got": [c["after_steps"] for c in res["com"]], "expected": want})
    for c in res["com"]:
        if max(abs(x) for x in c["P"]) > tol * ps:
            bad.append({"what": "linear momentum after removal", "got": c["P"], "scale": ps})
        if mode == "angular" and max(abs(x) for x in c["Lc"]) > 1e3 * tol * ls:
            bad.append({"what": "angular momentum after removal", "got": c["Lc"], "scale": ls})
        if c["angular"] != (mode == "angular"):
            bad.append({"what": "com mode", "got": c["angular"]})
        if any(abs(e1 - e0) > 1e-11 * (abs(e0) + 1e-300) for e0, e1 in zip(c["ek0"], c["ek1"])):
            bad.append({"what": "kinetic energy of a molecule changed by removal", "before": c["ek0"], "after": c["ek1"]})
    # phase[n] is taken right after integrator step i=n (before that iteration's removal)
    removed_before = {a for a in want}  # removal happened after `a` steps, i.e. before phase index a
    for n in range(1, len(res["phase"])):
        a, b = res["phase"][n - 1], res["phase"][n]
        if n in removed_before:
            # the step started from the phase point right after a removal: P = 0 (and L = 0) must persist
            if max(abs(x) for x in b["P"]) > 10 * tol * ps:
                bad.append({"what": "linear momentum not conserved after removal", "step": n, "got": b["P"]})
            if mode == "angular" and max(abs(x) for x in b["Lc"]) > 1e4 * tol * ls:
                bad.append({"what": "angular momentum not conserved after removal", "step": n, "got": b["Lc"]})
        else:
            if max(abs(x - y) for x, y in zip(a["P"], b["P"])) > 10 * tol * ps:
                bad.append({"what": "linear momentum not conserved", "step": n})
            if max(abs(x - y) for x, y in zip(a["Lo"], b["Lo"])) > 1e4 * tol * ls:
                bad.append({"what": "angular momentum not conserved", "step": n})
    return bad[:6]
