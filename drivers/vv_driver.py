"""Exact replay of VVExact behaviours on the real integrators (stub ES = exact linear springs)."""

import os
import types
from fractions import Fraction

import h5py
import numpy as np
import torch

from . import mdlib
from .mdlib import MDmod

# the driver's OWN literals (a changed constant in the code shows up as a mismatch)
ACC = 0.009648532800137615
KE = 1.0364270099032438e2
TEMP = 1.160451812e4


class SpringES(torch.nn.Module):
    K = 1.0
    G = (0.0, 0.0, 0.0)

    def __init__(self, seqm_parameters, *a, **k):
        super().__init__()
        self.device = torch.device("cpu")
        self.conservative_force = types.SimpleNamespace(energy=types.SimpleNamespace(md=False, excited_states=None, hamiltonian=types.SimpleNamespace(eps=None)))

    def forward(self, molecule, learned_parameters=None, xl_bomd_params=None, P0=None, dm_prop="SCF", cis_amp=None, **kw):
        x = molecule.coordinates.detach()
        nmol, n, _ = x.shape
        g = torch.tensor(self.G, dtype=x.dtype)
        F = g.reshape(1, 1, 3) - self.K * (n * x - x.sum(dim=1, keepdim=True))
        d = x.unsqueeze(2) - x.unsqueeze(1)
        V = 0.25 * self.K * (d * d).sum(dim=(1, 2, 3)) - (x * g.reshape(1, 1, 3)).sum(dim=(1, 2))
        molecule.force = F / ACC
        molecule.Etot = V
        molecule.dm = torch.zeros(nmol, 4 * n, 4 * n, dtype=x.dtype)
        molecule.e_gap = torch.ones(nmol, dtype=x.dtype)
        molecule.dipole = torch.zeros(nmol, 3, dtype=x.dtype)
        molecule.q = torch.zeros(nmol, n, dtype=x.dtype)
        molecule.Electronic_entropy = torch.zeros(nmol, dtype=x.dtype)
        molecule.dP2dt2 = torch.zeros_like(molecule.dm)


def fr(vec, e):
    return [[Fraction(int(c), 2 ** int(e)) for c in p] for p in vec]


def replay(rec):
    """rec: one exported VVExact behaviour (+ "workdir", "engine_cls": basic|langevin|xl)."""
    from harness import common

    common.quiet_stdio()
    MDmod.esdriver = SpringES
    SpringES.K = float(rec["k"])
    SpringES.G = tuple(float(c) for c in rec["g"])
    npart = rec["np"]
    wd = rec["workdir"]
    os.makedirs(wd, exist_ok=True)
    params = mdlib.seqm_params()
    from seqm.Molecule import Molecule
    from seqm.seqm_functions.constants import Constants

    h0 = rec["hist"][0]
    x0 = torch.tensor([[[float(c) for c in p] for p in h0["x"]]], dtype=torch.float64)
    v0 = torch.tensor([[[float(c) for c in p] for p in h0["v"]]], dtype=torch.float64)
    species = torch.ones(1, npart, dtype=torch.int64)
    mol = Molecule(Constants(), params, x0.clone(), species, charges=npart % 2)  # even electron count
    masses = torch.tensor(rec["m"], dtype=torch.float64).reshape(1, npart, 1)
    mol.mass = masses.clone()
    mol.mass_inverse = 1.0 / masses
    mol.velocities = v0.clone()
    steps = len(rec["hist"]) - 1
    out = {"molid": [0], "prefix": os.path.join(wd, "md"), "print every": 0, "checkpoint every": 0, "xyz": 0, "h5": {"data": 1, "coordinates": 1, "velocities": 1, "forces": 1}}
    eng = rec.get("engine_cls", "basic" if rec["engine"] == "nve" else "langevin")
    common_kw = dict(seqm_parameters=params, timestep=0.5, Temp=0.0, output=out)
    calls = {"q": 0}
    if eng == "basic":
        md = MDmod.Molecular_Dynamics_Basic(**common_kw)
    else:
        if eng == "langevin":
            md = MDmod.Molecular_Dynamics_Langevin(damp=1.0, **common_kw)
        else:
            md = MDmod.XL_BOMD(damp=1.0, xl_bomd_params={"k": 3}, **common_kw)
        orig_init = md.initialize

        def initialize(molecule, *a, **k):
            r = orig_init(molecule, *a, **k)
            md.langevin_c1 = torch.tensor(1.0 if rec["c1"] == "one" else 0.5, dtype=torch.float64)
            md.langevin_c2 = float(rec["amp"]) / masses
            return r

        md.initialize = initialize
        pat = int(rec["pat"])

        def randn_like(t, *a, **k):
            q = calls["q"]
            calls["q"] += 1
            o = torch.empty_like(t)
            for i in range(t.shape[1]):
                for d in range(3):
                    o[:, i, d] = 1.0 if (q * pat + (i + 1) + (d + 1)) % 2 == 0 else -1.0
            return o

        torch.randn_like = randn_like
    md.run(mol, steps=steps)
    res = {"draws": calls["q"], "n_dof": float(md.n_dof)}
    with h5py.File(os.path.join(wd, "md.0.h5"), "r") as h5:
        res["x"] = h5["coordinates/values"][()].tolist()
        res["v"] = h5["velocities/values"][()].tolist()
        res["f"] = h5["forces/values"][()].tolist()
        res["Ek"] = h5["data/thermo/Ek"][()].tolist()
        res["Ep"] = h5["data/thermo/Ep"][()].tolist()
        res["T"] = h5["data/thermo/T"][()].tolist()
        res["labels"] = {k: h5[k + "/steps"][()].tolist() for k in ("coordinates", "velocities", "forces", "data")}
    return res


def expected(rec):
    """Exact values (floats from Fractions) for every step of the behaviour."""
    m = [Fraction(int(a)) for a in rec["m"]]
    K = Fraction(int(rec["k"]))
    g = [Fraction(int(c)) for c in rec["g"]]
    out = {"x": [], "v": [], "f": [], "Ek": [], "Ep": []}
    n = rec["np"]
    for h in rec["hist"]:
        x = fr(h["x"], h["e"])
        v = fr(h["v"], h["e"])
        F = [[g[d] - K * (n * x[i][d] - sum(x[j][d] for j in range(n))) for d in range(3)] for i in range(n)]
        ek = sum(m[i] * v[i][d] ** 2 for i in range(n) for d in range(3)) / 2
        V = K * sum((x[i][d] - x[j][d]) ** 2 for i in range(n) for j in range(i + 1, n) for d in range(3)) / 2 - sum(g[d] * x[i][d] for i in range(n) for d in range(3))
        out["x"].append([[float(c) for c in p] for p in x])
        out["v"].append([[float(c) for c in p] for p in v])
        out["f"].append([[float(c) / ACC for c in p] for p in F])
        out["Ek"].append(float(ek) * KE)
        out["Ep"].append(float(V))
    return out


def compare(rec, res, rtol=1e-11):
    exp = expected(rec)
    bad = []

    def close(a, b):
        a, b = np.asarray(a, dtype=float), np.asarray(b, dtype=float)
        return a.shape == b.shape and bool(np.all(np.abs(a - b) <= rtol * (1.0 + np.abs(b))))

    steps = len(rec["hist"]) - 1
    for k in ("coordinates", "velocities", "forces", "data"):
        if res["labels"][k] != list(range(steps + 1)):
            bad.append({"what": "labels", "stream": k, "got": res["labels"][k]})
    for s in range(steps + 1):
        for name in ("x", "v", "f"):
            if not close(res[name][s], exp[name][s]):
                bad.append({"what": name, "step": s, "got": res[name][s], "exact": exp[name][s]})
        if not close(res["Ek"][s], exp["Ek"][s]):
            bad.append({"what": "Ek", "step": s, "got": res["Ek"][s], "exact": exp["Ek"][s]})
        if not close(res["Ep"][s], exp["Ep"][s]):
            bad.append({"what": "Ep", "step": s, "got": res["Ep"][s], "exact": exp["Ep"][s]})
        tex = exp["Ek"][s] * TEMP / (0.5 * res["n_dof"])
        if not close(res["T"][s], tex):
            bad.append({"what": "T", "step": s, "got": res["T"][s], "exact": tex})
    if rec["engine"] != "nve" and res["draws"] != 2 * steps:
        bad.append({"what": "noise draws", "got": res["draws"], "expected": 2 * steps})
    return bad[:6]
