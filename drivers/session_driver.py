"""Replays Session histories (sequences of forward / backward calls over a heterogeneous job
pool) in one process, dumping the hidden process state after every action."""

import copy
import json
import math
import os

import torch

from . import mdlib, scf_driver
from .mdlib import MDmod, _verif

import seqm.basics as basics  # noqa: E402
from seqm.ElectronicStructure import Electronic_Structure  # noqa: E402
from seqm.Molecule import Molecule  # noqa: E402
from seqm.seqm_functions.constants import Constants  # noqa: E402
from seqm.seqm_functions.scf_loop import SCF  # noqa: E402

DICT_TEMPLATES = {
    "A": {"method": "AM1", "scf_eps": 1.0e-10, "scf_converger": [2], "sp2": [False, 1e-5], "scf_backward": 1},
    "B": {"method": "PM3", "scf_eps": 1.0e-3, "scf_converger": [1], "sp2": [False, 1e-5], "scf_backward": 1},
    "C": {"method": "AM1", "scf_eps": 1.0e-7, "scf_converger": [1], "excited_states": {"n_states": 2, "method": "cis"}},
    "D": {"method": "AM1", "scf_eps": 1.0e-8, "scf_converger": [1], "UHF": True},
    "E": {"method": "AM1", "scf_eps": 1.0e-8, "scf_converger": [1], "sp2": [True, 1e-5], "scf_backward": 2},
    "F": {"method": "AM1", "scf_eps": 1.0e-8, "scf_converger": [1]},
    "G": {"method": "AM1", "scf_eps": 1.0e-8, "scf_converger": [1], "dispersion": True},
    "H": {"method": "AM1", "scf_eps": 1.0e-8, "scf_converger": [1], "dispersion": True},
    "I": {"method": "AM1", "scf_eps": 1.0e-8, "scf_converger": [1]},
    "J": {"method": "AM1", "scf_eps": 1.0e-8, "scf_converger": [2], "UHF": True},
    "K": {"method": "AM1", "scf_eps": 1.0e-8, "scf_converger": [1], "UHF": True},
    "L": {"method": "AM1", "scf_eps": 1.0e-8, "scf_converger": [1]},
    "M": {"method": "AM1", "scf_eps": 1.0e-8, "scf_converger": [1], "excited_states": {"n_states": 2, "method": "cis"}, "active_state": 1},   # forces of the first excited state
}
# jobs that share dict A but declare their own threshold/backward mode write them into the dict
# before the call, as a user would (documented keys only)
JOBS = {
    "tight": dict(dict="A", mol="h2o", set={"scf_eps": 1.0e-10, "scf_backward": 1}, out="gap"),
    "loose": dict(dict="B", mol="h2o", displace=0.1, out="gap"),
    "nh3A": dict(dict="A", mol="nh3", set={"scf_eps": 1.0e-8, "scf_backward": 0}),
    "h2oA": dict(dict="A", mol="h2o", displace=0.05, set={"scf_eps": 1.0e-8, "scf_backward": 0}),
    "radA": dict(dict="A", mol="nh2rad", set={"scf_eps": 1.0e-8, "scf_backward": 0}, fails=True),
    "cisC": dict(dict="C", mol="h2co"),
    "uhfD": dict(dict="D", mol="ch3"),
    "sp2E": dict(dict="E", mol="h2o", displace=0.02),
    "mdF": dict(dict="F", mol="h2o", md=True),
    "dispG": dict(dict="G", mol="h2o_dimer"),
    "dispH": dict(dict="H", mol="ch4_h2o"),
    "farI": dict(dict="I", mol="h2o_far"),                  # atom pairs beyond the overlap cutoff (40 bohr)
    "uhfJ": dict(dict="J", mol="ch3", fails=True),
    "uhfsK": dict(dict="K", mol="h2o", displace=0.03),      # unrestricted singlet from the default start density
    # ONE MD driver object (per settings dict) used for two different runs; the second one steers towards its own reference energy
    "mdL1": dict(dict="L", mol="h2o", mdobj=dict(steps=2, seed=5)),
    "mdL2": dict(dict="L", mol="h2o", displace=0.08, mdobj=dict(steps=3, seed=6, control_energy_shift=True)),
    "benzM": dict(dict="M", mol="benzene", displace=0.05),   # thread-count comparison only (not part of the Session pool)          # refused inside the SCF solver (UHF + Pulay), after the solve has started
}
scf_driver.MOLS["h2o_dimer"] = ([8, 8, 1, 1, 1, 1], [[0, 0, 0], [3.0, 0.1, 0.2], [0.96, 0, 0], [-0.24, 0.93, 0], [3.9, 0.3, 0.3], [2.8, -0.8, 0.4]], 0, 1)
scf_driver.MOLS["ch4_h2o"] = ([8, 6, 1, 1, 1, 1, 1, 1], [[3.6, 0.2, 0.1], [0, 0, 0], [4.5, 0.4, 0.2], [3.4, -0.7, 0.3], [0.63, 0.63, 0.63], [-0.63, -0.63, 0.63], [-0.63, 0.63, -0.63], [0.63, -0.63, -0.63]], 0, 1)
scf_driver.MOLS["h2o_far"] = ([8, 8, 1, 1, 1, 1], [[0, 0, 0], [25.0, 0.3, 0.2], [0.96, 0, 0], [-0.24, 0.93, 0], [25.9, 0.5, 0.3], [24.8, -0.6, 0.5]], 0, 1)
scf_driver.MOLS["benzene"] = ([6] * 6 + [1] * 6, [[1.39 * __import__("math").cos(k * 1.0471975512), 1.39 * __import__("math").sin(k * 1.0471975512), 0.0] for k in range(6)]
                               + [[2.48 * __import__("math").cos(k * 1.0471975512), 2.48 * __import__("math").sin(k * 1.0471975512), 0.0] for k in range(6)], 0, 1)
scf_driver.MOLS["nh2rad"] = ([7, 1, 1], [[0, 0, 0], [1.0, 0.2, 0], [-1.0, 0.2, 0]], 0, 1)

DEFAULT_FUNCS = [
    (basics.Pack_Parameters, "forward"),
    (basics.Energy, "forward"),
    (basics.Force, "forward"),
    (Electronic_Structure, "forward"),
    (MDmod.Molecular_Dynamics_Basic, "one_step"),
    (MDmod.Molecular_Dynamics_Basic, "initialize"),
    (MDmod.Molecular_Dynamics_Basic, "run"),
    (MDmod.XL_BOMD, "__init__"),
    (Molecule, "__init__"),
]


def hidden_state(dicts):
    eps = getattr(SCF, "scf_backward_eps", None)
    try:
        epsf = float(eps)
        exp = int(round(-math.log10(epsf))) if epsf > 0 else 0
    except Exception:
        exp = 0
    dirty = []
    for cls, name in DEFAULT_FUNCS:
        f = getattr(cls, name)
        for dflt in (f.__defaults__ or ()):
            if isinstance(dflt, dict) and dflt:
                dirty.append(f"{cls.__name__}.{name}:{sorted(dflt)[:3]}")
    return {
        "scfcls": {"method": getattr(SCF, "themethod", "-"), "eps": exp if hasattr(SCF, "themethod") else 0},
        "delems": {d: sorted(x for x in (dicts[d].get("elements") or []) if x != 0) if d in dicts else [] for d in DICT_TEMPLATES if d in MODEL_DICTS},
        "dtype": str(torch.get_default_dtype()),
        "grad": torch.is_grad_enabled(),
        "threads": torch.get_num_threads(),
        "dirty_defaults": dirty,
    }


def _tl(x):
    return None if x is None else [float(v) for v in x.detach().reshape(-1)]


_DRIVERS = {}
MODEL_DICTS = "ABCDEFGHIJKL"      # the settings dicts of the Session module (M is used by the thread-count comparison only)


def run_job(name, dicts, workdir, pending):
    """Executes one forward job. Returns dict of outputs (lists of floats)."""
    j = JOBS[name]
    d = j["dict"]
    if d not in dicts:
        dicts[d] = copy.deepcopy(DICT_TEMPLATES[d])
    p = dicts[d]
    for k, v in j.get("set", {}).items():
        p[k] = v
    sp, xyz, q, mult = scf_driver.build_batch([j["mol"]], displace=j.get("displace", 0.0))
    mol = Molecule(Constants(), p, xyz, sp, charges=q, mult=mult)
    mol.verbose = False
    if j.get("md"):
        out = {"prefix": os.path.join(workdir, "md_%d" % len(os.listdir(workdir))), "molid": [0], "print every": 0, "checkpoint every": 1, "xyz": 0, "h5": {"data": 1, "coordinates": 1}}
        md = MDmod.XL_BOMD(xl_bomd_params={"k": 3}, damp=None, seqm_parameters=p, timestep=0.4, Temp=200.0, output=out)
        md.run(mol, steps=2, seed=3)
        res = {"x": _tl(mol.coordinates), "v": _tl(mol.velocities)}
        MDmod.Molecular_Dynamics_Basic.run_from_checkpoint(out["prefix"] + ".restart.pt")
        return res
    if j.get("mdobj"):
        out = {"prefix": os.path.join(workdir, "mdo_%d" % len(os.listdir(workdir))), "molid": [0], "print every": 0, "checkpoint every": 0, "xyz": 0, "h5": {"data": 1, "coordinates": 1}}
        mkey = ("MD", d, tuple(p.get("elements") or ()))
        if os.environ.get("VERIF_SESSION_FRESH_DRIVERS") == "1" or _DRIVERS.get("MD" + d, (None, None))[0] != mkey:
            _DRIVERS["MD" + d] = (mkey, MDmod.Molecular_Dynamics_Basic(seqm_parameters=p, timestep=0.4, Temp=300.0, output=out))
        md = _DRIVERS["MD" + d][1]
        md.output_config.prefix = out["prefix"]
        md.run(mol, **j["mdobj"])
        return {"x": _tl(mol.coordinates), "v": _tl(mol.velocities), "Etot": _tl(mol.Etot)}
    if j.get("out") == "gap":
        ekey = ("E", d, tuple(p.get("elements") or ()), json.dumps(j.get("set", {}), sort_keys=True))
        if os.environ.get("VERIF_SESSION_FRESH_DRIVERS") == "1" or _DRIVERS.get("E" + d, (None, None))[0] != ekey:
            _DRIVERS["E" + d] = (ekey, basics.Energy(p))
        o = _DRIVERS["E" + d][1](mol, all_terms=True)
        res = {"Etot": _tl(o[1]), "gap": _tl(o[6])}
        pending[name] = (mol, o[6].sum())
        return res
    # one driver per settings dict, re-used as long as the dict's element list did not change (as a user script would)
    key = (d, tuple(p.get("elements") or ()))
    if os.environ.get("VERIF_SESSION_FRESH_DRIVERS") == "1" or _DRIVERS.get(d, (None, None))[0] != key:
        _DRIVERS[d] = (key, Electronic_Structure(p))
    es = _DRIVERS[d][1]
    es(mol)
    res = {"Etot": _tl(mol.Etot), "force": _tl(mol.force), "q": _tl(mol.q), "gap": _tl(mol.e_gap)}
    if mol.cis_energies is not None:
        res["cis"] = _tl(mol.cis_energies)
    return res


def replay(case):
    """case: {"id", "hist": [ {op, job, jobs}, ... ], "threads": 1}.  Returns per-action records."""
    mdlib.use_stub(False)
    from harness import common

    common.quiet_stdio()
    torch.set_num_threads(int(case.get("threads", 1)))
    workdir = case["workdir"]
    os.makedirs(workdir, exist_ok=True)
    dicts, pending = {}, {}
    recs = []
    for a in case["hist"]:
        r = {"op": a["op"]}
        try:
            if a["op"] == "fwd":
                r["job"] = a["job"]
                r["out"] = run_job(a["job"], dicts, workdir, pending)
                r["status"] = "ok"
            else:
                js = sorted(a["jobs"])
                r["jobs"] = js
                loss = sum(pending[j][1] for j in js)
                for j in js:
                    if pending[j][0].coordinates.grad is not None:
                        pending[j][0].coordinates.grad.zero_()
                loss.backward()
                r["grads"] = {j: _tl(pending[j][0].coordinates.grad) for j in js}
                for j in js:
                    del pending[j]
                r["status"] = "ok"
        except Exception as ex:  # noqa
            r["status"] = "raised"
            r["error"] = f"{type(ex).__name__}: {str(ex)[:200]}"
        r["hidden"] = hidden_state(dicts)
        r["pending"] = sorted(pending)
        recs.append(r)
    return {"id": case["id"], "recs": recs}
