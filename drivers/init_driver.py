"""MDInit driver: observes seeding, DoF, initial velocities, COM removal schedule, draw counts."""

import os

import h5py
import numpy as np
import torch

from . import mdlib
from .mdlib import _verif

SEEDS = {"none": None, "s1": 1, "s2": 2}


def run_cfg(case):
    from harness import common

    common.quiet_stdio()
    mdlib.use_stub(True)
    cfg = case["cfg"]
    wd = case["workdir"]
    os.makedirs(wd, exist_ok=True)
    eng = {"basic": "basic", "langevin": "langevin", "xl": "xl", "xl_damped": "xl"}[cfg["engine"]]
    kw = {}
    if cfg["engine"] in ("langevin", "xl_damped"):
        kw["damp"] = 10.0
    c = dict(engine=eng, system=case.get("system", "nh3_h2o"), molid=[0, 1], steps=case["steps"], cad=dict(data=1, coordinates=1, velocities=1), xyz=0, ckpt=0, print=0,
             temp=0.0 if cfg["velsrc"] == "temp0" else 300.0, k=3, **kw)
    md, mol, rk = mdlib.build_md(c, os.path.join(wd, "md"))
    rk["seed"] = SEEDS[cfg["seed"]]
    if cfg["com"] != "none":
        rk["remove_com"] = (cfg["com"], case["stride"])
    else:
        rk.pop("remove_com", None)
    user = None
    if cfg["velsrc"] == "user":
        g = torch.Generator().manual_seed(99)
        user = 0.01 * torch.randn(mol.coordinates.shape, generator=g, dtype=torch.float64) + torch.tensor([0.004, -0.002, 0.001], dtype=torch.float64)
        user = user * (mol.species > 0).unsqueeze(-1)
        mol.velocities = user.clone()
    # prior RNG history
    torch.manual_seed(12345)
    for _ in range(int(cfg["prior"])):
        torch.randn(3)
    counts = {"draws": 0, "steps": 0}
    orig_randn_like = torch.randn_like

    def randn_like(*a, **k):
        counts["draws"] += 1
        return orig_randn_like(*a, **k)

    torch.randn_like = randn_like

    def sink(rec):
        if rec["ev"] == "md.step":
            counts["steps"] += 1

    _verif.configure(sink=sink)
    comlog = []
    orig_zero = md._zero_com

    def zero_com(molecule, *a, **k):
        ek0 = md._kinetic_energy(molecule).clone()
        r = orig_zero(molecule, *a, **k)
        mass = molecule.mass
        p = (mass * molecule.velocities).sum(dim=1)
        scale = (mass * molecule.velocities.abs()).sum(dim=(1, 2)) + 1e-300
        rc = (mass * molecule.coordinates).sum(dim=1, keepdim=True) / mass.sum(dim=1, keepdim=True)
        L = (mass * torch.linalg.cross(molecule.coordinates - rc, molecule.velocities, dim=2)).sum(dim=1)
        lscale = (mass * (molecule.coordinates - rc).abs().sum(dim=2, keepdim=True) * molecule.velocities.abs().sum(dim=2, keepdim=True)).sum(dim=(1, 2)) + 1e-300
        ek1 = md._kinetic_energy(molecule)
        comlog.append({"i": counts["steps"] - 1, "p_rel": float((p.abs().max(dim=1)[0] / scale).max()), "L_rel": float((L.abs().max(dim=1)[0] / lscale).max()),
                       "dEk_rel": float(((ek1 - ek0).abs() / (ek0.abs() + 1e-300)).max()), "angular": bool(k.get("remove_angular", a[0] if a else True))})
        return r

    md._zero_com = zero_com
    md.run(mol, **rk)
    torch.randn_like = orig_randn_like
    out = {"n_atoms": [int(x) for x in mol.num_atoms], "n_dof": [float(x) for x in md.n_dof], "draws": counts["draws"], "com": comlog, "pad_vel": float((mol.velocities * (mol.species == 0).unsqueeze(-1)).abs().max())}
    files = {}
    for m in (0, 1):
        with h5py.File(os.path.join(wd, f"md.{m}.h5"), "r") as h5:
            files[m] = {k: h5[k][()] for k in ("coordinates/values", "velocities/values", "data/thermo/T", "data/thermo/Ek")}
    import hashlib

    out["digest"] = hashlib.sha1(b"".join(files[m][k].tobytes() for m in (0, 1) for k in sorted(files[m]))).hexdigest()
    out["T0"] = [float(files[m]["data/thermo/T"][0]) for m in (0, 1)]
    v0 = [files[m]["velocities/values"][0] for m in (0, 1)]
    x0 = [files[m]["coordinates/values"][0] for m in (0, 1)]
    if user is not None:
        out["user_bitwise"] = all(np.array_equal(v0[m], user[m, : v0[m].shape[0]].numpy()) for m in (0, 1))
        out["user_maxdiff"] = max(float(np.abs(v0[m] - user[m, : v0[m].shape[0]].numpy()).max()) for m in (0, 1))
    mass = [mol.mass[m, : v0[m].shape[0], 0].numpy() for m in (0, 1)]
    p0 = max(float(np.abs((mass[m][:, None] * v0[m]).sum(0)).max() / ((mass[m][:, None] * np.abs(v0[m])).sum() + 1e-300)) for m in (0, 1))
    out["p0_rel"] = p0
    Ls = []
    for m in (0, 1):
        rc = (mass[m][:, None] * x0[m]).sum(0) / mass[m].sum()
        L = (mass[m][:, None] * np.cross(x0[m] - rc, v0[m])).sum(0)
        sc = (mass[m][:, None] * np.abs(x0[m] - rc).sum(1, keepdims=True) * np.abs(v0[m]).sum(1, keepdims=True)).sum() + 1e-300
        Ls.append(float(np.abs(L).max() / sc))
    out["L0_rel"] = max(Ls)
    out["v0_zero"] = bool(all(not np.any(v0[m]) for m in (0, 1)))
    return out
