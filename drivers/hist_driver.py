"""SCFHistory driver: replays walks (sequences of solves with density reuse) on the real code."""

import torch

from . import mdlib, scf_driver

CONFIGS = {
    "mix02": dict(scf_converger=[0, 0.2]), "mix06": dict(scf_converger=[0, 0.6]), "adapt": dict(scf_converger=[1]), "pulay": dict(scf_converger=[2]),
    "adapt_sp2": dict(scf_converger=[1], sp2=[True, 1e-7]), "pulay_sp2": dict(scf_converger=[2], sp2=[True, 1e-7]), "uhf_adapt": dict(scf_converger=[1], UHF=True),
    "uhf_mix": dict(scf_converger=[0, 0.3], UHF=True), "adapt_tight": dict(scf_converger=[1], scf_eps=1e-10), "pulay_loose": dict(scf_converger=[2], scf_eps=1e-6),
    # purification threshold requested below the supported floor (the code clamps it to the floor)
    # Krylov subspace approximation solver (finite electronic temperature far below the gap)
    "ksa3": dict(scf_converger=[3, {"max_rank": 3, "err_threshold": 0.0, "T_el": 1500.0}]), "ksa2": dict(scf_converger=[3, {"max_rank": 2, "err_threshold": 0.0, "T_el": 300.0}]),
    # the three ways of obtaining forces (back-propagation is the default of the other configurations)
    "adapt_analytic": dict(scf_converger=[1], analytical_gradient=[True]), "pulay_seminum": dict(scf_converger=[2], analytical_gradient=[True, "numerical"]),
    "adapt_sp2_tiny": dict(scf_converger=[1], sp2=[True, 1e-10]), "mix_sp2_tiny": dict(scf_converger=[0, 0.3], sp2=[True, 1e-9]),
}
EPS_DEFAULT = 1e-8


def run_walk(case):
    from harness import common
    from seqm.ElectronicStructure import Electronic_Structure
    from seqm.Molecule import Molecule
    from seqm.seqm_functions.constants import Constants

    mdlib.use_stub(False)
    common.quiet_stdio()
    names = list(case.get("mates", [])) + [case["mol"]]   # the molecule of interest is the last row of the batch
    prev = None
    out = []
    for step in case["walk"]:
        cfg = dict(CONFIGS[step["cfg"]])
        eps = cfg.pop("scf_eps", EPS_DEFAULT)
        p = mdlib.seqm_params(scf_eps=eps, **cfg)
        sp, xyz, q, mult = scf_driver.build_batch(names, displace=0.0)
        g = torch.Generator().manual_seed(100 + int(step["g"]))
        xyz = xyz + 0.06 * (torch.rand(xyz.shape, generator=g, dtype=torch.float64) - 0.5) * (sp > 0).unsqueeze(-1)
        mol = Molecule(Constants(), p, xyz, sp, charges=q, mult=mult)
        mol.verbose = False
        P0 = None
        uhf = bool(cfg.get("UHF"))
        if step["start"] in ("prev", "perturbed") and prev is not None:
            P0 = prev.clone()
            if uhf and P0.dim() == 3:
                P0 = torch.stack((0.5 * P0, 0.5 * P0), dim=1)
            if not uhf and P0.dim() == 4:
                P0 = P0[:, 0] + P0[:, 1]
            if step["start"] == "perturbed":
                gg = torch.Generator().manual_seed(7)
                noise = 0.02 * (torch.rand(P0.shape, generator=gg, dtype=P0.dtype) - 0.5)
                P0 = P0 + (P0 != 0).to(P0.dtype) * (noise + noise.transpose(-1, -2))
        rec = {"g": step["g"], "cfg": step["cfg"], "start": step["start"], "eps": eps}
        try:
            es = Electronic_Structure(p)
            es(mol, P0=P0)
            rec["rows"] = []
            for m, nm in enumerate(names):
                n = len(scf_driver.MOLS[nm][0])
                nocc = int(mol.nocc[m].reshape(-1)[0])
                em = mol.e_mo[m]
                em = em[0] if em.dim() == 2 else em
                rec["rows"].append({"name": nm, "flag": bool(es.notconverged[m]), "Etot": float(mol.Etot[m]), "force": [float(x) for x in mol.force[m, :n].reshape(-1)],
                                    "q": [float(x) for x in mol.q[m, :n]], "e_occ": [float(x) for x in em[:nocc]]})
            prev = mol.dm.detach().clone()
        except Exception as ex:  # noqa
            rec["error"] = f"{type(ex).__name__}: {str(ex)[:200]}"
        out.append(rec)
    return out
