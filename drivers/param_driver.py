"""ParamFlow driver: for each (method, parameter, source, backward mode) builds the caller's tensor as named,
runs the real Energy module and projects the gradient of each output w.r.t. the caller's leaf."""

import torch

from . import mdlib, scf_driver

scf_driver.MOLS["formamide"] = (
    [8, 7, 6, 1, 1, 1],
    [[1.20, 0.25, 0.0], [-1.10, 0.30, 0.0], [0.0, -0.35, 0.0], [0.05, -1.45, 0.0], [-1.95, -0.25, 0.0], [-1.15, 1.30, 0.0]],
    0,
    1,
)


def run_row(row):
    from harness import common
    from seqm.basics import Energy
    from seqm.Molecule import Molecule
    from seqm.seqm_functions.constants import Constants

    mdlib.use_stub(False)
    common.quiet_stdio()
    req = row["req"]
    method, pname, src, mode = req["method"], req["p"], req["src"], int(req["mode"])
    names = row.get("mols", ["formamide"])
    conv = row.get("conv", [1])
    sp, xyz, q, mult = scf_driver.build_batch(names, displace=float(row.get("displace", 0.0)))   # displaced: no degenerate levels
    ref = Molecule(Constants(), mdlib.seqm_params(method=method), xyz.clone(), sp)
    leaf = ref.parameters[pname].detach().clone().requires_grad_(True)
    if src == "leaf":
        lp = {pname: leaf}
    elif src == "nonleaf":
        lp = {pname: leaf * 1.0}
    else:
        lp = lambda species, coords: {pname: leaf * (1.0 + 0.0 * coords.sum())}  # noqa: E731
    p = mdlib.seqm_params(method=method, scf_eps=1e-9 if not row.get("fd") else 1e-11, scf_converger=conv, scf_backward=mode, learned=[pname])
    out = {"raised": False, "proj": {}}
    wts = torch.tensor([1.0 + 0.7 * m for m in range(len(names))], dtype=torch.float64)   # every row of a batch counts, differently

    def outputs(o, nocc):
        Hf, Etot, e_gap, e, P = o[0], o[1], o[6], o[7], o[8]
        return {"Etot": (wts * Etot).sum(), "Hf": (wts * Hf).sum(), "gap": (wts * e_gap).sum(),
                "e_mo": sum(wts[m] * e[m, : int(nocc[m]) + 1].sum() for m in range(len(names))),
                "q": sum(wts[m] * P[m].diagonal()[:4].sum() for m in range(len(names)))}

    try:
        mol = Molecule(Constants(), p, xyz.clone(), sp, learned_parameters=lp)
        mol.verbose = False
        o = Energy(p)(mol, learned_parameters=lp, all_terms=True)
        nc = o[10]
        nocc = [int(x) for x in mol.nocc]
        vals = outputs(o, nocc)
        for name, val in vals.items():
            if not val.requires_grad:
                out["proj"][name] = "none"
                continue
            g = torch.autograd.grad(val, leaf, allow_unused=True, retain_graph=True)[0]
            if g is None:
                out["proj"][name] = "none"
            elif not torch.isfinite(g).all():
                out["proj"][name] = "nonfinite"
            else:
                out["proj"][name] = "nonzero" if float(g.abs().sum()) > 0 else "zero"
        out["flag"] = bool(nc.any())
        if row.get("fd"):
            # directional derivative along a fixed direction of the caller's tensor: autograd vs central difference
            gen = torch.Generator().manual_seed(11)
            d = torch.rand(leaf.shape, generator=gen, dtype=leaf.dtype) + 0.5
            d = d * (leaf.detach().abs() > 0).to(leaf.dtype)          # atoms that do not carry the parameter keep their zero
            scale = float(leaf.detach().abs().max()) or 1.0
            h = 4.0e-4 * scale
            ad = {}
            for name, val in vals.items():
                if val.requires_grad:
                    g = torch.autograd.grad(val, leaf, allow_unused=True, retain_graph=True)[0]
                    if g is not None:
                        ad[name] = float((g * d).sum())

            def values(theta):
                with torch.no_grad():
                    lp2 = {pname: theta}
                    m2 = Molecule(Constants(), p0, xyz.clone(), sp, learned_parameters=lp2)
                    m2.verbose = False
                    return {k: float(v) for k, v in outputs(Energy(p0)(m2, learned_parameters=lp2, all_terms=True), nocc).items()}

            p0 = mdlib.seqm_params(method=method, scf_eps=1e-11, scf_converger=[1], scf_backward=0, learned=[pname])
            out["hessian"] = None
            if row.get("hessian") and mode == 2:
                # unrolled back-propagation twice: Hessian of Etot w.r.t. the coordinates, against central differences of the force
                xr = xyz.clone().requires_grad_(True)
                mh = Molecule(Constants(), p, xr, sp, learned_parameters={pname: leaf.detach()})
                mh.verbose = False
                Eh = (wts * Energy(p)(mh, learned_parameters={pname: leaf.detach()}, all_terms=True)[1]).sum()
                xr = mh.coordinates
                g1 = torch.autograd.grad(Eh, xr, create_graph=True)[0]
                idx = [(0, 0, 0), (0, 1, 1), (len(names) - 1, 2, 2), (0, 2, 0)]
                H = torch.stack([torch.autograd.grad(g1[i], xr, retain_graph=True)[0] for i in idx])
                sym = max(abs(float(H[a][idx[b]]) - float(H[b][idx[a]])) for a in range(len(idx)) for b in range(len(idx)))
                fdh = []
                hh = 1.0e-4
                for k, i in enumerate(idx):
                    gs = []
                    for sgn in (1.0, -1.0):
                        x2 = xyz.clone()
                        x2[i] += sgn * hh
                        x2.requires_grad_(True)
                        m3 = Molecule(Constants(), p0, x2, sp, learned_parameters={pname: leaf.detach()})
                        m3.verbose = False
                        e3 = (wts * Energy(p0)(m3, learned_parameters={pname: leaf.detach()}, all_terms=True)[1]).sum()
                        gs.append(torch.autograd.grad(e3, m3.coordinates)[0])
                    fdh.append(float(((gs[0] - gs[1]) / (2 * hh) - H[k]).abs().max()))
                out["hessian"] = {"asym": sym, "fd_dev": max(fdh), "scale": float(H.abs().max())}
            vp, vm = values(leaf.detach() + h * d), values(leaf.detach() - h * d)
            vp2, vm2 = values(leaf.detach() + 0.5 * h * d), values(leaf.detach() - 0.5 * h * d)
            # Richardson: (4 D(h/2) - D(h)) / 3
            out["fd"] = {name: [ad[name], (4.0 * (vp2[name] - vm2[name]) / h - (vp[name] - vm[name]) / (2 * h)) / 3.0] for name in ad}
    except Exception as ex:  # noqa
        out["raised"] = True
        out["error"] = f"{type(ex).__name__}: {str(ex)[:200]}"
    return out


def geometry_dependence(case):
    """(c) a geometry-dependent parameter changes the force (compared with the same values frozen)."""
    from harness import common
    from seqm.ElectronicStructure import Electronic_Structure
    from seqm.Molecule import Molecule
    from seqm.seqm_functions.constants import Constants

    mdlib.use_stub(False)
    common.quiet_stdio()
    pname, method = case["p"], case["method"]
    sp, xyz, q, mult = scf_driver.build_batch(["formamide"])
    ref = Molecule(Constants(), mdlib.seqm_params(method=method), xyz.clone(), sp)
    base = ref.parameters[pname].detach().clone()
    s0 = float(xyz.sum())
    forces = []
    for dep in (0.0, 0.02):
        p = mdlib.seqm_params(method=method, scf_eps=1e-9, scf_converger=[1], learned=[pname])
        fn = lambda species, coords: {pname: base * (1.0 + dep * (coords.sum() - s0))}  # noqa: E731
        mol = Molecule(Constants(), p, xyz.clone(), sp, learned_parameters=fn)
        mol.verbose = False
        Electronic_Structure(p)(mol, learned_parameters=fn)
        forces.append(mol.force.detach().clone())
    return float((forces[0] - forces[1]).abs().max())
