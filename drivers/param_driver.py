"""ParamFlow driver: for each (method, parameter, source, backward mode) builds the caller's tensor as named,
runs the real Energy module and projects the gradient of each output w.r.t. the caller's leaf."""

import torch

from . import mdlib, scf_driver

scf_driver.MOLS["formamide"] = (
    [8, 7, 6, 1, 1, 1],
    [[1.20, 0.25, 0.0], [-1.10, 0.30, 0.0], [0.0, -0.35, 0.0], [0.05, -1.45, 0.0], [-1.95, -0.25, 0.0], [-1.15, 1.30, 0.0]],
    0,
    1,
)


def run_row(row):
    from harness import common
    from seqm.basics import Energy
    from seqm.Molecule import Molecule
    from seqm.seqm_functions.constants import Constants

    mdlib.use_stub(False)
    common.quiet_stdio()
    req = row["req"]
    method, pname, src, mode = req["method"], req["p"], req["src"], int(req["mode"])
    sp, xyz, q, mult = scf_driver.build_batch(["formamide"])
    ref = Molecule(Constants(), mdlib.seqm_params(method=method), xyz.clone(), sp)
    leaf = ref.parameters[pname].detach().clone().requires_grad_(True)
    if src == "leaf":
        lp = {pname: leaf}
    elif src == "nonleaf":
        lp = {pname: leaf * 1.0}
    else:
        lp = lambda species, coords: {pname: leaf * (1.0 + 0.0 * coords.sum())}  # noqa: E731
    p = mdlib.seqm_params(method=method, scf_eps=1e-9, scf_converger=[1], scf_backward=mode, learned=[pname])
    out = {"raised": False, "proj": {}}
    try:
        mol = Molecule(Constants(), p, xyz.clone(), sp, learned_parameters=lp)
        mol.verbose = False
        Hf, Etot, Eelec, Enuc, Eiso, EnucAB, e_gap, e, P, charge, nc = Energy(p)(mol, learned_parameters=lp, all_terms=True)
        nocc = int(mol.nocc[0])
        vals = {"Etot": Etot.sum(), "Hf": Hf.sum(), "gap": e_gap.sum(), "e_mo": e[0, : nocc + 1].sum(), "q": P[0].diagonal()[:4].sum()}
        for name, val in vals.items():
            if not val.requires_grad:
                out["proj"][name] = "none"
                continue
            g = torch.autograd.grad(val, leaf, allow_unused=True, retain_graph=True)[0]
            if g is None:
                out["proj"][name] = "none"
            elif not torch.isfinite(g).all():
                out["proj"][name] = "nonfinite"
            else:
                out["proj"][name] = "nonzero" if float(g.abs().sum()) > 0 else "zero"
        out["flag"] = bool(nc.any())
    except Exception as ex:  # noqa
        out["raised"] = True
        out["error"] = f"{type(ex).__name__}: {str(ex)[:200]}"
    return out


def geometry_dependence(case):
    """(c) a geometry-dependent parameter changes the force (compared with the same values frozen)."""
    from harness import common
    from seqm.ElectronicStructure import Electronic_Structure
    from seqm.Molecule import Molecule
    from seqm.seqm_functions.constants import Constants

    mdlib.use_stub(False)
    common.quiet_stdio()
    pname, method = case["p"], case["method"]
    sp, xyz, q, mult = scf_driver.build_batch(["formamide"])
    ref = Molecule(Constants(), mdlib.seqm_params(method=method), xyz.clone(), sp)
    base = ref.parameters[pname].detach().clone()
    s0 = float(xyz.sum())
    forces = []
    for dep in (0.0, 0.02):
        p = mdlib.seqm_params(method=method, scf_eps=1e-9, scf_converger=[1], learned=[pname])
        fn = lambda species, coords: {pname: base * (1.0 + dep * (coords.sum() - s0))}  # noqa: E731
        mol = Molecule(Constants(), p, xyz.clone(), sp, learned_parameters=fn)
        mol.verbose = False
        Electronic_Structure(p)(mol, learned_parameters=fn)
        forces.append(mol.force.detach().clone())
    return float((forces[0] - forces[1]).abs().max())
