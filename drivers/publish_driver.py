"""Publish driver: logs the published attributes of real calculations as fixed-point integers."""

import torch

from . import mdlib, scf_driver

ATTRS = ["Etot", "Eelec", "Enuc", "Hf", "Eiso", "e_mo", "e_gap", "q", "dm", "force", "cis_energies"]


def fx(x):
    return int(round(float(x) * 1.0e6))


def run_job(job):
    from harness import common
    from seqm.ElectronicStructure import Electronic_Structure

    mdlib.use_stub(False)
    common.quiet_stdio()
    params = mdlib.seqm_params(**job.get("params", {}))
    mol = scf_driver.make(job["mols"], params, displace=0.1)
    mol.verbose = False
    es = Electronic_Structure(params)
    kw = {}
    es(mol)
    snap = {a: (id(getattr(mol, a, None)), getattr(mol, a).detach().clone() if torch.is_tensor(getattr(mol, a, None)) else None) for a in ATTRS}
    with torch.no_grad():
        g = torch.Generator().manual_seed(5)
        mol.coordinates.add_(0.03 * (torch.rand(mol.coordinates.shape, generator=g, dtype=torch.float64) - 0.5) * (mol.species > 0).unsqueeze(-1))
    if job["path"] == "xl":
        es(mol, P0=mol.dm.clone(), dm_prop="XL-BOMD", xl_bomd_params={"k": 5})
    else:
        es(mol, P0=mol.dm, cis_amp=mol.cis_amplitudes) if job.get("reuse") else es(mol)
    fresh = []
    for a in ATTRS:
        v = getattr(mol, a, None)
        if v is None:
            continue
        if id(v) != snap[a][0] or snap[a][1] is None or v.shape != snap[a][1].shape or not torch.equal(v.detach(), snap[a][1]):
            fresh.append(a)
    recs = []
    tore = mol.const.tore
    act = mol.active_state
    for m, name in enumerate(job["mols"]):
        n = len(scf_driver.MOLS[name][0])
        Z = [int(z) for z in mol.species[m, :n]]
        uhf = mol.dm.dim() == 4
        a = int(act[m]) if torch.is_tensor(act) else int(act)
        eexc = fx(mol.cis_energies[m, a - 1]) if a > 0 else 0
        norb = int(mol.norb[m])
        if uhf:
            emo = [[fx(x) for x in mol.e_mo[m, s, :norb]] for s in (0, 1)]
            nocc = [int(x) for x in mol.nocc[m]]
            homo = [emo[s][nocc[s] - 1] for s in (0, 1)]
            lumo = [emo[s][nocc[s]] for s in (0, 1)]
            gap = [fx(x) for x in mol.e_gap[m]]
            dsum = mol.dm[m, 0].diagonal() + mol.dm[m, 1].diagonal()
        else:
            emo = [[fx(x) for x in mol.e_mo[m, :norb]]]
            nocc = int(mol.nocc[m])
            homo, lumo = [emo[0][nocc - 1]], [emo[0][nocc]]
            gap = [fx(mol.e_gap[m])]
            dsum = mol.dm[m].diagonal()
        dp = [fx(dsum[4 * i : 4 * i + 4].sum()) for i in range(n)]
        recs.append({
            "id": f"{job['id']}/{m}", "path": job["path"], "fresh": fresh,
            "Etot": fx(mol.Etot[m]), "Eelec": fx(mol.Eelec[m]), "Enuc": fx(mol.Enuc[m]), "Eexc": eexc, "Hf": fx(mol.Hf[m]), "Eiso": fx(mol.Eiso[m]),
            "Z": Z, "gap": gap, "homo": homo, "lumo": lumo, "emo": emo, "q": [fx(x) for x in mol.q[m, :n]], "core": [int(tore[z]) for z in Z], "dp": dp,
            "charge": int(mol.tot_charge[m]), "nel": int(sum(int(tore[z]) for z in Z) - int(mol.tot_charge[m])),
        })
    return recs
