"""Publish driver: logs the published attributes of real calculations as fixed-point integers."""

import torch

from . import mdlib, scf_driver

ATTRS = ["Etot", "Eelec", "Enuc", "Hf", "Eiso", "e_mo", "e_gap", "q", "dm", "force", "cis_energies"]


def fx(x):
    return int(round(float(x) * 1.0e6))


def run_job(job):
    from harness import common
    from seqm.ElectronicStructure import Electronic_Structure

    mdlib.use_stub(False)
    common.quiet_stdio()
    scf_driver.install_capture()
    params = mdlib.seqm_params(**job.get("params", {}))
    if isinstance(params.get("active_state"), list):
        params["active_state"] = torch.tensor(params["active_state"], dtype=torch.int64)      # one active state per molecule
    mol = scf_driver.make(job["mols"], params, displace=0.1)
    mol.verbose = False
    molw = None
    if job.get("warm"):
        # the same driver object first serves another batch of the same padded shape (other elements / other row order);
        # both molecule objects exist before the driver is built, so the driver knows every element
        molw = scf_driver.make(job["warm"], params, displace=0.1)
        molw.verbose = False
    es = Electronic_Structure(params)
    kw = {}
    if molw is not None:
        es(molw)
    es(mol)
    emo_first = mol.e_mo.detach().clone()
    dip_first = mol.dipole.detach().clone() if getattr(mol, "dipole", None) is not None else None
    snap = {a: (id(getattr(mol, a, None)), getattr(mol, a).detach().clone() if torch.is_tensor(getattr(mol, a, None)) else None) for a in ATTRS}
    with torch.no_grad():
        if job.get("second") == "rotate":
            # same object evaluated at a geometry turned by 90 degrees about z (frontier-orbital character order may change)
            x = mol.coordinates.clone()
            mol.coordinates[..., 0] = -x[..., 1]
            mol.coordinates[..., 1] = x[..., 0]
        else:
            g = torch.Generator().manual_seed(5)
            mol.coordinates.add_(0.03 * (torch.rand(mol.coordinates.shape, generator=g, dtype=torch.float64) - 0.5) * (mol.species > 0).unsqueeze(-1))
    if job["path"] == "xl":
        es(mol, P0=mol.dm.clone(), dm_prop="XL-BOMD", xl_bomd_params={"k": 5})
    else:
        es(mol, P0=mol.dm, cis_amp=mol.cis_amplitudes) if job.get("reuse") else es(mol)
    fresh = []
    for a in ATTRS:
        v = getattr(mol, a, None)
        if v is None:
            continue
        if id(v) != snap[a][0] or snap[a][1] is None or v.shape != snap[a][1].shape or not torch.equal(v.detach(), snap[a][1]):
            fresh.append(a)
    # third call: the whole geometry translated by (1, 2, -3) Angstrom; only the dipole is read from it
    snapshot = {a: getattr(mol, a) for a in ATTRS}
    nocc_s, active_s = mol.nocc, mol.active_state
    dip1 = mol.dipole.detach().clone() if mol.dipole is not None else None
    dshift = None
    if dip1 is not None and job["path"] != "xl":
        import copy

        mol3 = scf_driver.make(job["mols"], dict(params), displace=0.1)
        mol3.verbose = False
        with torch.no_grad():
            mol3.coordinates.copy_(mol.coordinates.detach() + torch.tensor([1.0, 2.0, -3.0], dtype=torch.float64) * (mol.species > 0).unsqueeze(-1))
        Electronic_Structure(params)(mol3)
        dshift = (mol3.dipole.detach() - dip1)
    recs = []
    tore = mol.const.tore
    act = mol.active_state
    for m, name in enumerate(job["mols"]):
        n = len(scf_driver.MOLS[name][0])
        Z = [int(z) for z in mol.species[m, :n]]
        uhf = mol.dm.dim() == 4
        a = int(act[m]) if torch.is_tensor(act) else int(act)
        a_state = a
        eexc = fx(mol.cis_energies[m, a - 1]) if a > 0 else 0
        norb = int(mol.norb[m])
        if uhf:
            emo = [[fx(x) for x in mol.e_mo[m, s, :norb]] for s in (0, 1)]
            nocc = [int(x) for x in mol.nocc[m]]
            homo = [emo[s][nocc[s] - 1] for s in (0, 1)]
            lumo = [emo[s][nocc[s]] for s in (0, 1)]
            gap = [fx(x) for x in mol.e_gap[m]]
            dsum = mol.dm[m, 0].diagonal() + mol.dm[m, 1].diagonal()
        else:
            emo = [[fx(x) for x in mol.e_mo[m, :norb]]]
            nocc = int(mol.nocc[m])
            homo, lumo = [emo[0][nocc - 1]], [emo[0][nocc]]
            gap = [fx(mol.e_gap[m])]
            dsum = mol.dm[m].diagonal()
        dp = [fx(dsum[4 * i : 4 * i + 4].sum()) for i in range(n)]
        emo0 = [[fx(x) for x in emo_first[m, s, :norb]] for s in (0, 1)] if uhf else [[fx(x) for x in emo_first[m, :norb]]]
        # residual of the published (orbital, energy) pairs against the Fock matrix the solver returned
        eigres = []
        if job["path"] != "xl":
            from seqm.seqm_functions.pack import pack

            F = scf_driver._last["F"][m]
            for s in range(2 if uhf else 1):
                Fs = pack((F[s] if uhf else F).unsqueeze(0), mol.nHeavy[m : m + 1], mol.nHydro[m : m + 1])[0][:norb, :norb]
                Fs = Fs.triu() + Fs.triu(1).T
                C = (mol.molecular_orbitals[m, s] if uhf else mol.molecular_orbitals[m])[:norb, :norb]
                e = (mol.e_mo[m, s] if uhf else mol.e_mo[m])[:norb]
                res = (Fs @ C - C * e.unsqueeze(0)).abs().max(dim=0).values
                nrm = (C * C).sum(dim=0)
                eigres.append([fx(x) + fx(abs(float(y) - 1.0)) for x, y in zip(res, nrm)])
        # dipole implied by the published charges, coordinates and density (driver's own arithmetic; unit: the code's e*Angstrom -> a.u.)
        DU = 1.889851
        dqs, dh = [[], [], []], [0.0, 0.0, 0.0]
        if mol.dipole is not None and job["path"] != "xl":
            zs, zp = mol.parameters["zeta_s"].detach(), mol.parameters["zeta_p"].detach()
            first = int((mol.species[:m] > 0).sum())          # parameters are stored for real atoms only, batch-flattened
            Pm = (mol.dm[m, 0] + mol.dm[m, 1]) if uhf else mol.dm[m]
            for a in range(n):
                R = mol.coordinates[m, a].detach()
                for d_ in range(3):
                    dqs[d_].append(fx(float(mol.q[m, a]) * float(R[d_]) * DU))
                if Z[a] > 2:
                    qn = 2.0 if Z[a] <= 10 else 3.0
                    s_, p_ = float(zs[first + a]), float(zp[first + a])
                    dd = (2.0 * qn + 1.0) * (4.0 * s_ * p_) ** (qn + 0.5) / (s_ + p_) ** (2.0 * qn + 2.0) / 3.0 ** 0.5 * 0.529167
                    for d_ in range(3):
                        dh[d_] += -2.0 * dd * float(Pm[4 * a, 4 * a + 1 + d_]) * DU
        allf = 0
        if getattr(mol, "all_forces", None) is not None and torch.is_tensor(mol.all_forces):
            # forces of every state were requested: the entry of the active state must be the published force
            allf = fx(float((mol.all_forces[m, a_state, :n] - mol.force[m, :n]).abs().max()))
        recs.append({
            "id": f"{job['id']}/{m}", "path": job["path"], "fresh": fresh,
            "Etot": fx(mol.Etot[m]), "Eelec": fx(mol.Eelec[m]), "Enuc": fx(mol.Enuc[m]), "Eexc": eexc, "Hf": fx(mol.Hf[m]), "Eiso": fx(mol.Eiso[m]),
            "Z": Z, "gap": gap, "homo": homo, "lumo": lumo, "emo": emo, "q": [fx(x) for x in mol.q[m, :n]], "core": [int(tore[z]) for z in Z], "dp": dp,
            "dshift": [fx(x) for x in dshift[m]] if dshift is not None else [int(mol.tot_charge[m]) * k * 1889851 for k in (1, 2, -3)],
            "allf": allf, "dq": dqs if dqs[0] else [[0], [0], [0]], "dh": [fx(x) for x in dh], "dipf": bool(dqs[0]),
            "emo0": emo0, "nocc": nocc if uhf else [nocc], "tracked": not uhf, "eigres": eigres,
            "rot": job.get("second") == "rotate" and dip_first is not None,
            "dip": [fx(x) for x in mol.dipole[m]] if mol.dipole is not None else [0, 0, 0],
            "dip0": [fx(x) for x in dip_first[m]] if dip_first is not None else [0, 0, 0],
            "charge": int(mol.tot_charge[m]), "nel": int(sum(int(tore[z]) for z in Z) - int(mol.tot_charge[m])),
        })
    return recs
