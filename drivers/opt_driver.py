"""Optimizer driver: exact quadratic wells (stub ES) and real-PES runs of Geometry_Optimization_SD."""

import io
import re
import sys
import types

import torch

from . import mdlib, scf_driver
from .mdlib import MDmod


class WellES(torch.nn.Module):
    K = 2.0

    def __init__(self, seqm_parameters, *a, **k):
        super().__init__()
        self.device = torch.device("cpu")
        self.conservative_force = types.SimpleNamespace(energy=types.SimpleNamespace(md=False, excited_states=None))
        self.ncalls = 0

    def forward(self, molecule, learned_parameters=None, P0=None, dm_prop="SCF", **kw):
        self.ncalls += 1
        x = molecule.coordinates.detach()
        real = (molecule.species > 0).to(x.dtype).unsqueeze(-1)
        molecule.force = -self.K * x * real
        molecule.Etot = 0.5 * self.K * (x * x * real).sum(dim=(1, 2))
        molecule.dm = torch.zeros(x.shape[0], 1, 1, dtype=x.dtype)


_RE_IT = re.compile(r"^(\d+)\s+(\S+) (.*)$")


def parse_log(text):
    its = []
    final = None
    for ln in text.splitlines():
        if ln.startswith("converged with"):
            m = re.match(r"converged with (\d+) step, Max Force = (\S+) \(eV/Ang\), dE = (\S+)", ln)
            final = ("converged", int(m.group(1)), float(m.group(2)), float(m.group(3)))
        elif ln.startswith("not converged within"):
            final = ("not converged", int(ln.split()[3]), None, None)
        else:
            m = _RE_IT.match(ln)
            if m and "||" in ln:
                parts = [p.split() for p in m.group(3).split("||") if p.strip()]
                its.append({"i": int(m.group(1)), "fmax": float(m.group(2)), "E": [float(p[0]) for p in parts], "dE": [float(p[1]) for p in parts]})
    return its, final


def run_exact_pair(pair):
    """Two behaviours with the same tolerance and cap run one after the other on the SAME optimiser object
    (a second run() must behave like the first run() of a fresh object)."""
    first = run_exact(pair[0])
    second = run_exact(pair[1], opt=_LAST["opt"])
    return [first, second]


_LAST = {}


def run_exact(rec, opt=None):
    """rec: exported Optimizer behaviour."""
    from seqm.Molecule import Molecule
    from seqm.seqm_functions.constants import Constants

    MDmod.esdriver = WellES
    nm = len(rec["x0"])
    species = torch.tensor([[1, 1, 0]] * nm, dtype=torch.int64)
    coords = torch.zeros(nm, 3, 3, dtype=torch.float64)
    for m in range(nm):
        coords[m, 0, 0] = float(rec["x0"][m])
        coords[m, 2] = torch.tensor([0.7, -0.3, 0.2])
    pad0 = coords[:, 2].clone()
    params = mdlib.seqm_params()
    mol = Molecule(Constants(), params, coords.clone(), species)
    if opt is None:
        opt = MDmod.Geometry_Optimization_SD(params, alpha=0.25, force_tol=rec["tol8"] / 8.0, max_evl=int(rec["cap"]))
    _LAST["opt"] = opt
    calls0 = opt.esdriver.ncalls
    buf = io.StringIO()
    old = sys.stdout
    sys.stdout = buf
    try:
        fe, ee = opt.run(mol)
    finally:
        sys.stdout = old
    its, final = parse_log(buf.getvalue())
    return {"its": its, "final": final, "ret_fmax": float(fe), "ret_de": float(ee), "x": [float(mol.coordinates[m, 0, 0]) for m in range(nm)],
            "pad_moved": float((mol.coordinates[:, 2] - pad0).abs().max()), "other_atom": float(mol.coordinates[:, 1].abs().max()), "evals": opt.esdriver.ncalls - calls0}


def compare_exact(rec, o):
    S, K = rec["s"], rec["k"]
    bad = []
    nm = len(rec["x0"])
    path = rec["path"]
    if o["evals"] != rec["it"] or len(o["its"]) != rec["it"]:
        bad.append({"what": "iterations", "got": [o["evals"], len(o["its"])], "expected": rec["it"]})
        return bad
    E = []
    for n, p in enumerate(path):
        fm = K * max(abs(v) for v in p["x"]) / S
        en = [K * (v / S) ** 2 / 2 for v in p["x"]]
        E.append(en)
        it = o["its"][n]
        if abs(it["fmax"] - fm) > 1e-6 * (1 + fm) or any(abs(a - b) > 1e-6 * (1 + abs(b)) for a, b in zip(it["E"], en)):
            bad.append({"what": "iteration_values", "n": n + 1, "got": it, "expected": {"fmax": fm, "E": en}})
    if abs(o["ret_fmax"] - rec["fmax"] / S) > 1e-12:
        bad.append({"what": "returned_fmax", "got": o["ret_fmax"], "expected": rec["fmax"] / S})
    prev = E[-2] if len(E) > 1 else [0.0] * nm
    de = sum(a - b for a, b in zip(E[-1], prev)) / nm
    if abs(o["ret_de"] - de) > 1e-12 * (1 + abs(de)):
        bad.append({"what": "returned_dE", "got": o["ret_de"], "expected": de})
    if any(abs(a - b / S) > 1e-12 for a, b in zip(o["x"], rec["final"])):
        bad.append({"what": "final_coordinates", "got": o["x"], "expected": [b / S for b in rec["final"]]})
    if o["pad_moved"] != 0.0:
        bad.append({"what": "padding_atom_moved", "got": o["pad_moved"]})
    if not rec["ambiguous"]:
        want = rec["report"]
        if o["final"] is None or o["final"][0] != want:
            bad.append({"what": "report", "got": o["final"], "expected": want})
        elif want == "converged" and o["final"][1] != rec["it"]:
            bad.append({"what": "reported_step_count", "got": o["final"][1], "expected": rec["it"]})
    return bad


def run_real(case):
    """Real PES: distorted molecules, batch vs solo paths, descent, padding."""
    from harness import common
    from seqm.Molecule import Molecule
    from seqm.seqm_functions.constants import Constants

    mdlib.use_stub(False)
    common.quiet_stdio()
    params = mdlib.seqm_params(scf_eps=1e-9, scf_converger=[1], **case.get("params", {}))
    sp, xyz, q, mult = scf_driver.build_batch(case["mols"], displace=0.15, pad_coord=case.get("pad_coord", 0.0))
    mol = Molecule(Constants(), params, xyz.clone(), sp, charges=q, mult=mult)
    opt = MDmod.Geometry_Optimization_SD(params, alpha=case["alpha"], force_tol=case["tol"], max_evl=case["cap"])
    rows = []
    orig = opt.onestep

    def onestep(molecule, learned_parameters=dict()):
        xs = molecule.coordinates.detach().clone()
        f, e = orig(molecule, learned_parameters=learned_parameters)
        rows.append({"x": xs.tolist(), "E": [float(v) for v in e], "fmax": [float(v) for v in f.abs().amax(dim=(1, 2))], "f2": [float(v) for v in (f * f).sum(dim=(1, 2))]})
        return f, e

    opt.onestep = onestep
    buf = io.StringIO()
    old = sys.stdout
    sys.stdout = buf
    try:
        fe, ee = opt.run(mol)
    finally:
        sys.stdout = old
    its, final = parse_log(buf.getvalue())
    pad = (sp == 0)
    return {"rows": rows, "final": final, "ret_fmax": float(fe), "pad_moved": float(((mol.coordinates.detach() - xyz) * pad.unsqueeze(-1)).abs().max()), "n": len(rows)}
