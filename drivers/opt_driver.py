"""Optimizer driver: exact quadratic wells (stub ES) and real-PES runs of Geometry_Optimization_SD."""

import io
import re
import sys
import types

import torch

from . import mdlib, scf_driver
from .mdlib import MDmod


class WellES(torch.nn.Module):
    K = 2.0

    def __init__(self, seqm_parameters, *a, **k):
        super().__init__()
        self.device = torch.device("cpu")
        self.conservative_force = types.SimpleNamespace(energy=types.SimpleNamespace(md=False, excited_states=None))
        self.ncalls = 0

    def forward(self, molecule, learned_parameters=None, P0=None, dm_prop="SCF", **kw):
        self.ncalls += 1
        x = molecule.coordinates.detach()
        real = (molecule.species > 0).to(x.dtype).unsqueeze(-1)
        molecule.force = -self.K * x * real
        molecule.Etot = 0.5 * self.K * (x * x * real).sum(dim=(1, 2))
        molecule.dm = torch.zeros(x.shape[0], 1, 1, dtype=x.dtype)


_RE_IT = re.compile(r"^(\d+)\s+(\S+) (.*)$")


def parse_log(text):
    its = []
    final = None
    for ln in text.splitlines():
        if ln.startswith("converged with"):
            m = re.match(r"converged with (\d+) step, Max Force = (\S+) \(eV/Ang\), dE = (\S+)", ln)
            final = ("converged", int(m.group(1)), float(m.group(2)), float(m.group(3)))
        elif ln.startswith("not converged within"):
            final = ("not converged", int(ln.split()[3]), None, None)
        else:
            m = _RE_IT.match(ln)
            if m and "||" in ln:
                parts = [p.split() for p in m.group(3).split("||") if p.strip()]
                its.append({"i": int(m.group(1)), "fmax": float(m.group(2)), "E": [float(p[0]) for p in parts], "dE": [float(p[1]) for p in parts]})
    return its, final


def run_exact_pair(pair):
    """Two behaviours with the same tolerance and cap run one after the other on the SAME optimiser object
    (a second run() must behave like the first run() of a fresh object)."""
    first = run_exact(pair[0])
    second = run_exact(pair[1], opt=_LAST["opt"])
    return [first, second]


_LAST = {}


def run_exact(rec, opt=None):
    """rec: exported Optimizer behaviour."""
    from seqm.Molecule import Molecule
    from seqm.seqm_functions.constants import Constants

    MDmod.esdriver = WellES
    nm = len(rec["x0"])
    layout = rec.get("layout", "first")
    if layout == "first":
        # every row: moving atom, atom at rest in its well, padding slot
        species = torch.tensor([[1, 1, 0]] * nm, dtype=torch.int64)
        coords = torch.zeros(nm, 3, 3, dtype=torch.float64)
        mover = [0] * nm
        for m in range(nm):
            coords[m, 2] = torch.tensor([0.7, -0.3, 0.2])
        padcol = [[2]] * nm
    else:
        # rows of growing size (the first row is the smallest), the moving atom is the LAST real atom of its row
        width = 2 * nm + 1
        species = torch.zeros(nm, width, dtype=torch.int64)
        coords = torch.zeros(nm, width, 3, dtype=torch.float64)
        mover, padcol = [], []
        for m in range(nm):
            nreal = 2 + 2 * m          # even electron counts
            species[m, :nreal] = 1
            mover.append(nreal - 1)
            padcol.append(list(range(nreal, width)))
            for c in padcol[-1]:
                coords[m, c] = torch.tensor([0.7, -0.3, 0.2])
    for m in range(nm):
        coords[m, mover[m], 0] = float(rec["x0"][m])
    padmask = torch.zeros(coords.shape[:2], dtype=torch.bool)
    for m in range(nm):
        padmask[m, padcol[m]] = True
    pad0 = coords[padmask].clone()
    params = mdlib.seqm_params()
    mol = Molecule(Constants(), params, coords.clone(), species)
    if opt is None:
        opt = MDmod.Geometry_Optimization_SD(params, alpha=0.25, force_tol=rec["tol8"] / 8.0, max_evl=int(rec["cap"]))
    _LAST["opt"] = opt
    calls0 = opt.esdriver.ncalls
    buf = io.StringIO()
    old = sys.stdout
    sys.stdout = buf
    try:
        fe, ee = opt.run(mol) if rec.get("log", True) else opt.run(mol, log=False)
    finally:
        sys.stdout = old
    its, final = parse_log(buf.getvalue())
    rest = torch.ones(coords.shape[:2], dtype=torch.bool) & ~padmask
    for m in range(nm):
        rest[m, mover[m]] = False
    return {"its": its, "final": final, "ret_fmax": float(fe), "ret_de": float(ee), "x": [float(mol.coordinates[m, mover[m], 0]) for m in range(nm)], "logged": bool(rec.get("log", True)),
            "pad_moved": float((mol.coordinates[padmask] - pad0).abs().max()), "other_atom": float(mol.coordinates[rest].abs().max()), "evals": opt.esdriver.ncalls - calls0}


def compare_exact(rec, o):
    S, K = rec["s"], rec["k"]
    bad = []
    nm = len(rec["x0"])
    path = rec["path"]
    logged = o.get("logged", True)
    if o["evals"] != rec["it"] or (logged and len(o["its"]) != rec["it"]):
        bad.append({"what": "iterations", "got": [o["evals"], len(o["its"])], "expected": rec["it"]})
        return bad
    E = []
    for n, p in enumerate(path):
        fm = K * max(abs(v) for v in p["x"]) / S
        en = [K * (v / S) ** 2 / 2 for v in p["x"]]
        E.append(en)
        if not logged:
            continue
        it = o["its"][n]
        if abs(it["fmax"] - fm) > 1e-6 * (1 + fm) or any(abs(a - b) > 1e-6 * (1 + abs(b)) for a, b in zip(it["E"], en)):
            bad.append({"what": "iteration_values", "n": n + 1, "got": it, "expected": {"fmax": fm, "E": en}})
    if abs(o["ret_fmax"] - rec["fmax"] / S) > 1e-12:
        bad.append({"what": "returned_fmax", "got": o["ret_fmax"], "expected": rec["fmax"] / S})
    prev = E[-2] if len(E) > 1 else [0.0] * nm
    de = sum(a - b for a, b in zip(E[-1], prev)) / nm
    if abs(o["ret_de"] - de) > 1e-12 * (1 + abs(de)):
        bad.append({"what": "returned_dE", "got": o["ret_de"], "expected": de})
    if any(abs(a - b / S) > 1e-12 for a, b in zip(o["x"], rec["final"])):
        bad.append({"what": "final_coordinates", "got": o["x"], "expected": [b / S for b in rec["final"]]})
    if o["pad_moved"] != 0.0:
        bad.append({"what": "padding_atom_moved", "got": o["pad_moved"]})
    if o["other_atom"] != 0.0:
        bad.append({"what": "atom_at_rest_moved", "got": o["other_atom"]})
    if not rec["ambiguous"] and logged:
        want = rec["report"]
        if o["final"] is None or o["final"][0] != want:
            bad.append({"what": "report", "got": o["final"], "expected": want})
        elif want == "converged" and o["final"][1] != rec["it"]:
            bad.append({"what": "reported_step_count", "got": o["final"][1], "expected": rec["it"]})
    return bad


def run_real(case):
    """Real PES: distorted molecules, batch vs solo paths, descent, padding."""
    from harness import common
    from seqm.Molecule import Molecule
    from seqm.seqm_functions.constants import Constants

    mdlib.use_stub(False)
    common.quiet_stdio()
    params = mdlib.seqm_params(scf_eps=1e-9, scf_converger=[1], **case.get("params", {}))
    sp, xyz, q, mult = scf_driver.build_batch(case["mols"], displace=0.15, pad_coord=case.get("pad_coord", 0.0))
    mol = Molecule(Constants(), params, xyz.clone(), sp, charges=q, mult=mult)
    opt = MDmod.Geometry_Optimization_SD(params, alpha=case["alpha"], force_tol=case["tol"], max_evl=case["cap"])
    rows = []
    orig = opt.onestep

    def onestep(molecule, learned_parameters=dict()):
        xs = molecule.coordinates.detach().clone()
        f, e = orig(molecule, learned_parameters=learned_parameters)
        rows.append({"x": xs.tolist(), "E": [float(v) for v in e], "fmax": [float(v) for v in f.abs().amax(dim=(1, 2))], "f2": [float(v) for v in (f * f).sum(dim=(1, 2))]})
        return f, e

    opt.onestep = onestep
    buf = io.StringIO()
    old = sys.stdout
    sys.stdout = buf
    try:
        fe, ee = opt.run(mol)
    finally:
        sys.stdout = old
    its, final = parse_log(buf.getvalue())
    pad = (sp == 0)
    return {"rows": rows, "final": final, "ret_fmax": float(fe), "pad_moved": float(((mol.coordinates.detach() - xyz) * pad.unsqueeze(-1)).abs().max()), "n": len(rows)}
