"""MD driver library: stub electronic structure, case execution in forked children,
disk projection.  Runs under /venv/bin/python with LANL_PYSEQM_VERIF=1."""

import io
import json
import os
import re
import sys
import types

import numpy as np
import torch

torch.set_num_threads(1)
torch.set_default_dtype(torch.float64)

import h5py  # noqa: E402
import seqm  # noqa: E402
import seqm.MolecularDynamics as MDmod  # noqa: E402
from seqm import _verif  # noqa: E402
from seqm.Molecule import Molecule  # noqa: E402
from seqm.seqm_functions.constants import Constants  # noqa: E402

assert _verif.ON, "drivers must run with LANL_PYSEQM_VERIF=1"

REAL_ES = MDmod.esdriver
STREAMS = ["data", "coordinates", "velocities", "forces", "na", "tdm"]
ENGINES = {
    "basic": "Molecular_Dynamics_Basic",
    "langevin": "Molecular_Dynamics_Langevin",
    "xl": "XL_BOMD",
    "ksa": "KSA_XL_BOMD",
}


class StubES(torch.nn.Module):
    """Analytic stand-in for Electronic_Structure: harmonic pair springs inside each molecule.

    Publishes the attributes the MD loop and the writers consume.  With `sensitive` the
    published density (and, through it, energy and force) depends on the density passed in
    (P0), so that a run whose carried electronic state was not restored diverges."""

    K = 3.0
    R0 = 1.1
    sensitive = True

    def __init__(self, seqm_parameters, *args, **kwargs):
        super().__init__()
        self.seqm_parameters = seqm_parameters
        self.device = torch.device("cpu")
        exc = seqm_parameters.get("excited_states")
        ham = types.SimpleNamespace(eps=None)
        energy = types.SimpleNamespace(md=False, excited_states=exc, hamiltonian=ham, namd=False, xlesmd=False)
        self.conservative_force = types.SimpleNamespace(energy=energy)
        self.ncalls = 0

    def forward(self, molecule, learned_parameters=None, xl_bomd_params=None, P0=None, dm_prop="SCF", cis_amp=None, **kw):
        self.ncalls += 1
        x = molecule.coordinates.detach()
        nmol, n, _ = x.shape
        real = (molecule.species > 0).to(x.dtype)
        pm = real.unsqueeze(2) * real.unsqueeze(1) * (1.0 - torch.eye(n, dtype=x.dtype)).unsqueeze(0)
        d = x.unsqueeze(2) - x.unsqueeze(1)
        r = torch.sqrt((d * d).sum(-1) + (1.0 - pm))
        V = 0.25 * self.K * (pm * (r - self.R0) ** 2).sum(dim=(1, 2))
        F = -(self.K * (pm * (r - self.R0) / r).unsqueeze(-1) * d).sum(dim=2)
        g = torch.zeros(nmol, 4 * n, 4 * n, dtype=x.dtype)
        flat = (x * real.unsqueeze(-1)).reshape(nmol, -1)
        g[:, : 3 * n, : 3 * n] = 0.01 * flat.unsqueeze(2) * flat.unsqueeze(1)
        if self.sensitive and torch.is_tensor(P0) and P0.shape == g.shape:
            dm = 0.5 * P0.detach() + g
            bias = 1.0e-3 * torch.tanh(dm.sum(dim=(1, 2)))
        else:
            dm = g
            bias = torch.zeros(nmol, dtype=x.dtype)
        molecule.force = F * (1.0 + bias).reshape(-1, 1, 1)
        molecule.Etot = V + bias
        molecule.Hf = molecule.Etot.clone()
        molecule.Eelec = molecule.Etot.clone()
        molecule.Enuc = torch.zeros_like(V)
        molecule.dm = dm
        molecule.e_gap = 1.0 + V
        molecule.e_mo = None
        molecule.dipole = (x * real.unsqueeze(-1)).sum(dim=1)
        molecule.q = torch.zeros(nmol, n, dtype=x.dtype)
        if dm_prop == "XL-BOMD":
            molecule.Electronic_entropy = torch.zeros(nmol, dtype=x.dtype)
            molecule.dP2dt2 = 0.1 * (g - P0.detach()) if torch.is_tensor(P0) else torch.zeros_like(g)
            molecule.Krylov_Error = None
            molecule.Fermi_occ = None
        exc = self.seqm_parameters.get("excited_states")
        if isinstance(exc, dict):
            R = int(exc["n_states"])
            base = torch.arange(1, R + 1, dtype=x.dtype).unsqueeze(0) * (1.0 + 0.1 * V.unsqueeze(1))
            molecule.cis_energies = base
            norb = 4 * n
            tdm = torch.zeros(nmol, R, norb, norb, dtype=x.dtype)
            for k in range(R):
                tdm[:, k] = (k + 1) * g
            molecule.transition_density_matrices = tdm
            molecule.cis_amplitudes = torch.ones(nmol, R, 2, dtype=x.dtype) * V.reshape(-1, 1, 1)
            molecule.transition_dipole = torch.ones(nmol, R, 3, dtype=x.dtype) * V.reshape(-1, 1, 1)
            molecule.oscillator_strength = torch.ones(nmol, R, dtype=x.dtype) * V.reshape(-1, 1)
            act = molecule.active_state
            if torch.is_tensor(act):
                a = act.to(torch.long)
            else:
                a = torch.full((nmol,), int(act), dtype=torch.long)
            add = torch.where(a > 0, base.gather(1, (a - 1).clamp(min=0).unsqueeze(1)).squeeze(1), torch.zeros_like(V))
            molecule.Etot = molecule.Etot + add


def use_stub(on=True):
    MDmod.esdriver = StubES if on else REAL_ES


# ---------------------------------------------------------------------------------------------
# Systems

SYSTEMS = {
    "h2o_h2": dict(
        species=[[8, 1, 1], [1, 1, 0]],
        coordinates=[
            [[0.00, 0.00, 0.00], [0.96, 0.00, 0.00], [-0.24, 0.93, 0.00]],
            [[0.00, 0.00, 0.00], [0.74, 0.00, 0.00], [0.0, 0.0, 0.0]],
        ],
    ),
    "h2_h2o": dict(
        species=[[1, 1, 0], [8, 1, 1]],
        coordinates=[
            [[0.00, 0.00, 0.00], [0.74, 0.00, 0.00], [0.0, 0.0, 0.0]],
            [[0.00, 0.00, 0.00], [0.96, 0.00, 0.00], [-0.24, 0.93, 0.00]],
        ],
    ),
    "nh3_h2o": dict(
        species=[[7, 1, 1, 1], [8, 1, 1, 0]],
        coordinates=[
            [[0.0, 0.0, 0.12], [0.94, 0.0, -0.27], [-0.47, 0.81, -0.27], [-0.47, -0.81, -0.27]],
            [[0.00, 0.00, 0.00], [0.96, 0.00, 0.00], [-0.24, 0.93, 0.00], [0.0, 0.0, 0.0]],
        ],
    ),
    "h2": dict(species=[[1, 1]], coordinates=[[[0.0, 0.0, 0.0], [0.74, 0.0, 0.0]]]),
    "h2o": dict(species=[[8, 1, 1]], coordinates=[[[0.00, 0.00, 0.00], [0.96, 0.00, 0.00], [-0.24, 0.93, 0.00]]]),
    "h2co": dict(
        species=[[8, 6, 1, 1]],
        coordinates=[[[-0.00104, -0.00028, 0.0], [1.20966, -0.00003, 0.0], [1.63293, 0.95572, 0.0], [1.82758, -0.85100, 0.0]]],
    ),
    "h2co_2": dict(
        species=[[8, 6, 1, 1], [8, 6, 1, 1]],
        coordinates=[
            [[-0.00104, -0.00028, 0.0], [1.20966, -0.00003, 0.0], [1.63293, 0.95572, 0.0], [1.82758, -0.85100, 0.0]],
            [[0.01, 0.0, 0.02], [1.23, 0.01, 0.0], [1.60, 0.97, 0.01], [1.85, -0.83, -0.02]],
        ],
    ),
    "three": dict(
        species=[[8, 1, 1], [6, 1, 1], [1, 1, 0]],
        coordinates=[
            [[0.00, 0.00, 0.00], [0.96, 0.00, 0.00], [-0.24, 0.93, 0.00]],
            [[0.00, 0.00, 0.00], [1.09, 0.00, 0.00], [-0.36, 1.03, 0.00]],
            [[0.00, 0.00, 0.00], [0.74, 0.00, 0.00], [0.0, 0.0, 0.0]],
        ],
    ),
}


def seqm_params(method="AM1", **over):
    p = {
        "method": method,
        "scf_eps": 1.0e-8,
        "scf_converger": [1],
        "sp2": [False, 1.0e-5],
        "learned": [],
        "pair_outer_cutoff": 1.0e10,
        "eig": True,
    }
    p.update(over)
    return p


def make_molecule(system, params, charges=0, mult=1):
    s = SYSTEMS[system]
    species = torch.as_tensor(s["species"], dtype=torch.int64)
    coords = torch.tensor(s["coordinates"], dtype=torch.float64)
    const = Constants()
    return Molecule(const, params, coords.clone(), species, charges=charges, mult=mult)


def output_dict(prefix, case):
    cad = case["cad"]
    h5 = {}
    for k in ("data", "coordinates", "velocities", "forces"):
        h5[k] = int(cad.get(k, 0))
    if cad.get("tdm", 0):
        h5["transition_density_matrices"] = int(cad["tdm"])
    if cad.get("na", 0):
        h5["nonadiabatic"] = int(cad["na"])
    if case.get("write_mo"):
        h5["write_mo"] = True
    if case.get("transition_properties"):
        h5["transition_properties"] = True
    return {
        "molid": list(case.get("molid", [0])),
        "prefix": prefix,
        "print every": int(case.get("print", 1)),
        "checkpoint every": int(case.get("ckpt", 0)),
        "xyz": int(case.get("xyz", 0)),
        "h5": h5,
    }


def build_md(case, prefix):
    """Returns (md, molecule, run_kwargs) for a fresh run of `case`."""
    eng = case.get("engine", "basic")
    params = seqm_params(**case.get("params", {}))
    mol = make_molecule(case.get("system", "h2o_h2"), params)
    out = output_dict(prefix, case)
    common = dict(seqm_parameters=params, timestep=case.get("dt", 0.5), Temp=case.get("temp", 300.0), output=out)
    if eng == "basic":
        md = MDmod.Molecular_Dynamics_Basic(**common)
    elif eng == "langevin":
        md = MDmod.Molecular_Dynamics_Langevin(damp=case.get("damp", 20.0), **common)
    elif eng in ("xl", "ksa"):
        xlp = {"k": int(case.get("k", 5))}
        if eng == "ksa":
            xlp.update({"max_rank": 2, "err_threshold": 0.0, "T_el": 1500})
        cls = MDmod.XL_BOMD if eng == "xl" else MDmod.KSA_XL_BOMD
        md = cls(damp=case.get("damp", None), xl_bomd_params=xlp, **common)
    elif eng == "xlesmd":
        # extended-Lagrangian excited-state MD: a second history buffer (transition densities) next to the density one
        md = MDmod.XL_ESMD(damp=case.get("damp", None), xl_bomd_params={"k": int(case.get("k", 5))}, **common)
    elif eng == "fssh":
        from seqm.NonadiabaticDynamics import SurfaceHoppingDynamics

        md = SurfaceHoppingDynamics(initial_state=int(case.get("initial_state", 1)), damp=case.get("damp", None), **common)
    else:
        raise ValueError(eng)
    kw = dict(steps=int(case["steps"]), reuse_P=bool(case.get("reuse_P", True)), seed=int(case.get("seed", 7)))
    if case.get("remove_com") is not None:
        kw["remove_com"] = tuple(case["remove_com"])
    for k, v in (case.get("run_kwargs") or {}).items():
        kw[k] = tuple(v) if isinstance(v, list) else v
    return md, mol, kw


# ---------------------------------------------------------------------------------------------
# Running one segment (in a child process)


def run_segment(case, workdir, seg, crash=None, trace_path=None, stub=True):
    """Run segment `seg` (0 = fresh run, >0 = resume from checkpoint) of `case` inside the
    current (child) process.  Returns a small dict; the process may die hard before that."""
    use_stub(stub)
    os.makedirs(workdir, exist_ok=True)
    prefix = os.path.join(workdir, "md")
    _verif.configure(trace=trace_path, crash=crash)
    so = open(os.path.join(workdir, f"stdout.{seg}.txt"), "w", buffering=1)
    sys.stdout.flush()
    os.dup2(so.fileno(), 1)
    status = "finished"
    err = None
    try:
        if seg == 0:
            md, mol, kw = build_md(case, prefix)
            md.run(mol, **kw)
        else:
            if case.get("engine") == "fssh":
                from seqm.NonadiabaticDynamics import SurfaceHoppingDynamics

                SurfaceHoppingDynamics.run_from_checkpoint(prefix + ".restart.pt")
            else:
                MDmod.Molecular_Dynamics_Basic.run_from_checkpoint(prefix + ".restart.pt")
    except _verif.VerifCrash as ex:
        status = "soft"
        err = str(ex)
    sys.stdout.flush()
    return {"status": status, "err": err}


# ---------------------------------------------------------------------------------------------
# Projection of the files on disk


H5PATHS = {
    "data": "data",
    "coordinates": "coordinates",
    "velocities": "velocities",
    "forces": "forces",
    "na": "data/nonadiabatic",
    "tdm": "data/excitation/transition_density_matrices",
}


def _datasets(group, prefix=""):
    out = {}
    for k, v in group.items():
        p = prefix + "/" + k if prefix else k
        if isinstance(v, h5py.Dataset):
            out[p] = v
        else:
            out.update(_datasets(v, p))
    return out


def stream_of(path):
    """Which stream a dataset path belongs to (None for run-constant datasets)."""
    if path.startswith("data/excitation/transition_density_matrices/"):
        return "tdm"
    if path.startswith("data/nonadiabatic/"):
        return "na"
    for s in ("coordinates", "velocities", "forces"):
        if path.startswith(s + "/"):
            return s
    if path in ("atoms", "data/mo/nocc", "data/excitation/active_state"):
        return None
    if path.startswith("data/"):
        return "data"
    return None


def read_h5(path):
    """-> {"streams": {s: {"labels": [...], "rows": [ {dataset: bytes-hex-digest or array} ]}}, "const": {...}}"""
    out = {"streams": {}, "const": {}, "attrs": {}}
    with h5py.File(path, "r") as h5:
        out["attrs"] = {k: (v.tolist() if hasattr(v, "tolist") else v) for k, v in h5.attrs.items()}
        ds = _datasets(h5)
        groups = {}
        for p, d in ds.items():
            s = stream_of(p)
            if s is None:
                out["const"][p] = np.asarray(d[()]).tolist()
            else:
                groups.setdefault(s, {})[p] = d[()]
        for s, dd in groups.items():
            stepkey = [p for p in dd if p.endswith("/steps") and stream_of(p) == s and p.count("/") == H5PATHS[s].count("/") + 1]
            if not stepkey:
                continue
            labels = [int(v) for v in dd[stepkey[0]]]
            out["streams"][s] = {"labels": labels, "data": {p: v for p, v in dd.items() if p != stepkey[0]}}
    return out


def _same(a, b, tol):
    if tol is None:
        return np.array_equal(a, b, equal_nan=True)
    a = np.asarray(a)
    b = np.asarray(b)
    if a.shape != b.shape:
        return False
    if a.dtype.kind in "iu":
        return np.array_equal(a, b)
    return bool(np.allclose(a, b, rtol=tol, atol=tol, equal_nan=True))


def project_h5(path, ref, tol=None, maxdev=None):
    """Project one HDF5 file to the model's row encoding, using reference rows for `valueOK`.
    ref = read_h5(reference file) or None (then values are compared with nothing: all OK)."""
    try:
        cur = read_h5(path)
    except Exception as ex:  # unreadable file
        return {"ok": False, "error": f"{type(ex).__name__}: {ex}"}
    proj = {}
    shapes = {}
    for s in STREAMS:
        st = cur["streams"].get(s)
        if st is None:
            proj[s] = []
            continue
        rows = []
        rst = ref["streams"].get(s) if ref else None
        ref_index = {l: k for k, l in enumerate(rst["labels"])} if rst else {}
        for r, lab in enumerate(st["labels"]):
            vals_zero = all(not np.any(np.nan_to_num(v[r], nan=1.0)) for v in st["data"].values())
            if lab == 0 and r > 0:
                rows.append(-1 if vals_zero else -2)  # unwritten filler row (or label-less garbage)
                continue
            ok = True
            if rst is not None:
                k = ref_index.get(lab)
                if k is None:
                    ok = False
                else:
                    for p, v in st["data"].items():
                        rv = rst["data"].get(p)
                        if rv is None or not _same(v[r], rv[k], tol):
                            ok = False
                            break
                        if maxdev is not None and tol is not None and np.asarray(v[r]).dtype.kind == "f":
                            dv = np.abs(np.nan_to_num(np.asarray(v[r]) - np.asarray(rv[k])))
                            if dv.size:
                                maxdev[0] = max(maxdev[0], float(dv.max()))
            rows.append(lab if ok else -(lab + 2))
        proj[s] = rows
        shapes[s] = {p: list(v.shape) for p, v in st["data"].items()}
    return {"ok": True, "rows": proj, "shapes": shapes, "const": cur["const"], "attrs": cur["attrs"]}


_RE_XYZ_STEP = re.compile(r"^step:\s*(-?\d+)\s+E_total")


_RE_NUM = re.compile(r"[-+]?\d+\.\d+(?:[eE][-+]?\d+)?")


def _frame_same(a, b, tol):
    if a == b:
        return True
    if tol is None or b is None:
        return False
    na = [float(x) for x in _RE_NUM.findall(a)]
    nb = [float(x) for x in _RE_NUM.findall(b)]
    if len(na) != len(nb) or _RE_NUM.sub("#", a) != _RE_NUM.sub("#", b):
        return False
    return all(abs(x - y) <= max(tol, 1.5e-5) for x, y in zip(na, nb))


def project_xyz(path, ref_frames=None, tol=None):
    """-> {"labels":[...], "torn": bool}; a frame is a count line, a comment line and count atom lines."""
    if not os.path.exists(path):
        return {"labels": [], "torn": False, "absent": True}
    with open(path) as f:
        lines = f.read().split("\n")
    if lines and lines[-1] == "":
        lines.pop()
        trailing_newline = True
    else:
        trailing_newline = False
    labels = []
    torn = False
    k = 0
    while k < len(lines):
        try:
            n = int(lines[k].strip())
        except ValueError:
            torn = True
            break
        if k + 1 >= len(lines):
            torn = True
            break
        m = _RE_XYZ_STEP.match(lines[k + 1])
        if not m or k + 2 + n > len(lines):
            torn = True
            break
        frame = "\n".join(lines[k : k + 2 + n])
        lab = int(m.group(1))
        if ref_frames is not None and not _frame_same(frame, ref_frames.get(lab), tol):
            lab = -(lab + 2)
        labels.append(lab)
        k += 2 + n
    if not torn and lines and not trailing_newline:
        torn = True
        if labels:
            labels.pop()
    return {"labels": labels, "torn": torn, "absent": False}


def xyz_frames(path):
    """reference frames by label"""
    out = {}
    if not os.path.exists(path):
        return out
    with open(path) as f:
        lines = f.read().split("\n")
    k = 0
    while k + 1 < len(lines) and lines[k].strip():
        n = int(lines[k].strip())
        m = _RE_XYZ_STEP.match(lines[k + 1])
        out[int(m.group(1))] = "\n".join(lines[k : k + 2 + n])
        k += 2 + n
    return out


def project_ckpt(prefix):
    path = prefix + ".restart.pt"
    d = os.path.dirname(prefix)
    litter = sorted(f for f in os.listdir(d) if f.startswith(".tmp_ckpt_"))
    if not os.path.exists(path):
        return {"done": -1, "loadable": None, "litter": litter}
    try:
        ck = torch.load(path, map_location="cpu", weights_only=False)
        return {"done": int(ck["step_done"]), "loadable": True, "litter": litter, "keys": sorted(ck.keys()), "molkeys": sorted(ck["molecules"].keys())}
    except Exception as ex:
        return {"done": -2, "loadable": False, "litter": litter, "error": f"{type(ex).__name__}: {ex}"}


_RE_SCREEN = re.compile(r"^\s*(\d+)\s+[-\d.]+\s+[-+\de.]+ ")


def screen_labels(workdir, seg):
    p = os.path.join(workdir, f"stdout.{seg}.txt")
    out = []
    if not os.path.exists(p):
        return out
    with open(p) as f:
        for ln in f:
            m = _RE_SCREEN.match(ln)
            if m and "||" in ln:
                out.append(int(m.group(1)))
    return out


def observe(workdir, molid, refdir=None, tol=None):
    """Projection of everything on disk for all requested molecules."""
    prefix = os.path.join(workdir, "md")
    obs = {"mols": {}, "ckpt": project_ckpt(prefix)}
    maxdev = [0.0]
    for m in molid:
        ref = None
        ref_frames = None
        if refdir:
            rp = os.path.join(refdir, f"md.{m}.h5")
            if os.path.exists(rp):
                ref = read_h5(rp)
            ref_frames = xyz_frames(os.path.join(refdir, f"md.{m}.xyz"))
        h5p = f"{prefix}.{m}.h5"
        o = {}
        o["h5"] = project_h5(h5p, ref, tol, maxdev) if os.path.exists(h5p) else {"ok": False, "error": "absent", "absent": True}
        o["xyz"] = project_xyz(f"{prefix}.{m}.xyz", ref_frames, tol)
        obs["mols"][str(m)] = o
    obs["maxdev"] = maxdev[0]
    obs["baks"] = sorted(f for f in os.listdir(workdir) if ".bak." in f)
    return obs


def load_trace(path):
    ev = []
    if os.path.exists(path):
        with open(path) as f:
            for ln in f:
                ln = ln.strip()
                if ln:
                    try:
                        ev.append(json.loads(ln))
                    except json.JSONDecodeError:
                        ev.append({"ev": "<torn-trace-line>"})
    return ev
