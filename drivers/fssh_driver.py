"""FSSH driver: replays FSSH behaviours on the real SurfaceHoppingDynamics bookkeeping
(_after_electronic_update, _attempt_hop, _rescale_velocity_along_nac) using dummy dynamics objects
built the way tests/test_nonadiabatic.py does."""

from fractions import Fraction
from types import SimpleNamespace

import torch

from seqm.NonadiabaticDynamics import NonadiabaticDynamicsBase, SurfaceHoppingDynamics

KE = 1.0364270099032438e2  # the driver's own literal of KINETIC_ENERGY_SCALE


class DummyFSSH(SurfaceHoppingDynamics):
    def __init__(self):
        pass


class DummyNAD(NonadiabaticDynamicsBase):
    def __init__(self):
        pass


def make_dyn(cls, nmol, nstates, decohere):
    dyn = cls()
    dyn.timestep = 1.0
    dyn.damp = None
    dyn._nstates = nstates
    dyn._amp_phase = torch.zeros((nmol, nstates, 3), dtype=torch.float64)
    dyn._current_potential = None
    dyn._hop_integral = None
    dyn._apc_window = 2
    dyn._detect_crossings_flag = True
    dyn._eye_cache, dyn._arange_cache, dyn._perm_cost_buffers = {}, {}, {}
    dyn._trivial_zero_buffers, dyn._trivial_swap_buffers = {}, {}
    dyn._hop_buffer = None
    dyn._electronic_substeps = 4
    dyn._active_states = torch.zeros((nmol,), dtype=torch.long)
    dyn.post_hop_holdoff = torch.zeros((nmol,), dtype=torch.long)
    dyn.prev_state = torch.full((nmol,), -1, dtype=torch.long)
    dyn._decohere_on_hop = bool(decohere)
    dyn._trivial_crossing_mask = None
    dyn.hop_log = []
    dyn.step_offset = 0
    return dyn


def amp_of(label):
    return torch.tensor([0.1 * label + 0.05, 0.01 * label, 0.2 * label], dtype=torch.float64)


def label_of(vec):
    x, y, th = [float(v) for v in vec]
    if x == 1.0 and y == 0.0:
        return 100
    if x == 0.0 and y == 0.0:
        return 0
    lab = round((x - 0.05) / 0.1)
    ok = abs(x - (0.1 * lab + 0.05)) < 1e-12 and abs(y - 0.01 * lab) < 1e-12 and abs(th - 0.2 * lab) < 1e-12
    return lab if ok else -1


def replay(beh):
    steps = beh["steps"]
    ntraj = len(steps[0]["pre"])
    ns = len(steps[0]["pre"][0]["lab"])
    dyn = make_dyn(DummyFSSH, ntraj, ns, beh["decohere"])
    pre = steps[0]["pre"]
    vel = torch.zeros(ntraj, 1, 3, dtype=torch.float64)
    for t in range(ntraj):
        dyn._active_states[t] = pre[t]["active"] - 1
        for s in range(ns):
            dyn._amp_phase[t, s] = amp_of(pre[t]["lab"][s])
        vel[t, 0] = torch.tensor([float(c) for c in pre[t]["vnum"]])
    mol = SimpleNamespace(coordinates=torch.zeros(ntraj, 1, 3, dtype=torch.float64), velocities=vel, force=torch.zeros(ntraj, 1, 3, dtype=torch.float64),
                          mass_inverse=torch.ones(ntraj, 1, 1, dtype=torch.float64), Etot=torch.tensor([1.0 + 0.1 * t for t in range(ntraj)], dtype=torch.float64), acc=None)
    dyn._recompute_active_force = lambda molecule: None
    orig_rand = torch.rand
    torch.rand = lambda *a, **k: torch.full((a[0],) if a and isinstance(a[0], int) else tuple(a[0]), 0.5, dtype=torch.float64)
    bad = []
    alt_v = {}  # trajectory -> (model velocity, observed equally valid velocity) after a v.d = 0 hop
    try:
        for k, st in enumerate(steps):
            # hold-off tick (the line of _do_integrator_step preceding _after_electronic_update)
            dyn.post_hop_holdoff = (dyn.post_hop_holdoff - 1).clamp(min=0)
            swap_to = torch.full((ntraj, ns), -1, dtype=torch.long)
            hop_int = torch.zeros(ntraj, ns, ns, dtype=torch.float64)
            E = torch.zeros(ntraj, ns, dtype=torch.float64)
            dvec = torch.zeros(ntraj, 1, 3, dtype=torch.float64)
            hopped = [sum(1 for e in dyn.hop_log if e.mol_index == t and e.accepted and e.reason is None) for t in range(ntraj)]
            for t in range(ntraj):
                inp = st["in"][t]
                perm = [p - 1 for p in inp["swap"]]
                if perm != list(range(ns)):
                    swap_to[t] = torch.tensor(perm)
                a0 = int(dyn._active_states[t])
                a1 = a0 if (beh.get("detect") and int(dyn.post_hop_holdoff[t]) > 0) else perm[a0]
                E[t] = torch.tensor([0.2 * (s + 1) for s in range(ns)], dtype=torch.float64)
                kin = inp["kin"]
                m = float(kin["m"])
                mol.mass_inverse[t, 0, 0] = 1.0 / m
                d = [float(c) for c in kin["d"]]
                dvec[t, 0] = torch.tensor(d)
                j = inp["hop"] - 1
                # (the model allows one accepted stochastic hop per trajectory: exact arithmetic stays small)
                if inp["hop"] != 0 and hopped[t] == 0:
                    for row in range(ns):
                        if row != j:
                            hop_int[t, row, j] = 10.0
                    v = [float(c) for c in mol.velocities[t, 0]]
                    b = Fraction(sum(int(round(x)) * int(y) for x, y in zip(v, d)))
                    D = Fraction(int(sum(y * y for y in d)))
                    r = int(kin["r"])
                    dEp = (b * b - r * r) * Fraction(int(m)) / (2 * D) if r > 0 else (b * b + 1) * Fraction(int(m)) / (2 * D)
                    if j != a1:
                        E[t, j] = E[t, a1] + float(dEp) * KE
            if beh.get("detect"):
                # the permutation goes through the real _detect_crossings: old amplitudes = unit vectors, new = permuted
                eye = torch.eye(ns, dtype=torch.float64)
                ref = eye.unsqueeze(0).repeat(ntraj, 1, 1)
                tgt = ref.clone()
                for t in range(ntraj):
                    perm = [p - 1 for p in st["in"][t]["swap"]]
                    for i_ in range(ns):
                        tgt[t, perm[i_]] = eye[i_]
                z = torch.zeros(ntraj, ns, ns, dtype=torch.float64)
                dyn._trivial_crossing_mask = dyn._detect_crossings({"cis_amp": ref, "nac_dot": z.clone()}, {"cis_amp": tgt, "nac_dot": z.clone()})
            else:
                dyn._trivial_crossing_mask = swap_to if (swap_to >= 0).any() else None
            dyn._hop_integral = hop_int
            dyn._compute_NACR_for_hop = lambda molecule, pairs: {(s1 - 1, s2 - 1): dvec.clone() for (s1, s2) in pairs}
            etot_before = mol.Etot.clone()
            act_before = dyn._active_states.clone()
            dyn._after_electronic_update(mol, excitation_energies=E, step=k)
            for t in range(ntraj):
                out = st["out"][t]
                got = {
                    "active": int(dyn._active_states[t]) + 1,
                    "lab": [label_of(dyn._amp_phase[t, s]) for s in range(ns)],
                    "hold": int(dyn.post_hop_holdoff[t]),
                    "prev": int(dyn.prev_state[t]) + 1,
                }
                want = {"active": out["active"], "lab": list(out["lab"]), "hold": out["hold"], "prev": out["prev"]}
                if got != want:
                    bad.append({"step": k, "traj": t, "what": "bookkeeping", "got": got, "expected": want, "input": st["in"][t]})
                vexp = [c / out["den"] for c in out["vnum"]]
                vgot = [float(c) for c in mol.velocities[t, 0]]
                info = st["info"][t]
                if info["accept"] and info["b"] == 0:
                    # v.d = 0: the two energy-conserving roots have equal magnitude; either direction is "the smaller one"
                    vpre = [c / st["pre"][t]["den"] for c in st["pre"][t]["vnum"]]
                    valt = [2 * p - e for p, e in zip(vpre, vexp)]
                    if all(abs(a - b) <= 1e-12 * (1 + abs(b)) for a, b in zip(vgot, valt)):
                        alt_v[t] = (list(vexp), valt)
                        vexp = valt
                elif t in alt_v and alt_v[t][0] == vexp:
                    vexp = alt_v[t][1]  # no further hop changes it (one accepted hop per trajectory)
                if any(abs(a - b) > 1e-12 * (1 + abs(b)) for a, b in zip(vgot, vexp)):
                    bad.append({"step": k, "traj": t, "what": "velocity", "got": vgot, "expected": vexp, "input": st["in"][t]})
                epot = float(etot_before[t] - E[t, act_before[t]] + E[t, dyn._active_states[t]])
                if abs(float(mol.Etot[t]) - epot) > 1e-12 or abs(float(dyn._current_potential[t]) - epot) > 1e-12:
                    bad.append({"step": k, "traj": t, "what": "potential", "got": float(mol.Etot[t]), "expected": epot})
        log = [{"traj": e.mol_index + 1, "from": e.from_state + 1, "to": e.to_state + 1, "ok": bool(e.accepted),
                "why": "trivial" if e.reason == "Trivial crossing" else ("frustrated" if e.reason == "Frustrated hop" else "hop")} for e in dyn.hop_log]
        key = lambda e: (e["traj"], e["from"], e["to"], e["ok"], e["why"])  # noqa: E731
        if sorted(map(key, log)) != sorted(map(key, beh["log"])):
            bad.append({"what": "hop_log", "got": log, "expected": beh["log"]})
    finally:
        torch.rand = orig_rand
    return bad[:5]


def attempt_hop_grid():
    """_attempt_hop alone: probabilities in [0,1], row sum <= 1 after the guard, target = first j with cumsum >= r."""
    bad = []
    dyn = make_dyn(DummyFSSH, 1, 4, False)
    orig_rand = torch.rand
    try:
        for active in range(4):
            for pop_active in (1.0, 0.25, 0.0625):
                for row in ([0.0, 0.125, 0.25, 0.0], [0.5, 0.5, 0.5, 0.5], [2.0, 0.0, 1.0, 0.0], [-0.5, 0.25, 0.0, 0.0], [0.0, 0.0, 0.0, 0.0]):
                    g = [max(0.0, x / pop_active) if j != active else 0.0 for j, x in enumerate(row)]
                    ssum = sum(g)
                    if ssum > 1.0:
                        g = [x / ssum for x in g]
                    for r in (0.0625, 0.25, 0.5, 0.75, 0.9375):
                        dyn._active_states = torch.tensor([active])
                        dyn._amp_phase.zero_()
                        dyn._amp_phase[0, active, 0] = pop_active ** 0.5
                        hi = torch.zeros(1, 4, 4, dtype=torch.float64)
                        for j, x in enumerate(row):
                            if j != active:
                                hi[0, active, j] = x
                        dyn._hop_integral = hi
                        torch.rand = lambda *a, **k: torch.full((1,), r, dtype=torch.float64)
                        tgt = int(dyn._attempt_hop()[0])
                        cum = 0.0
                        want = -1
                        boundary = False
                        for j, x in enumerate(g):
                            cum += x
                            boundary = boundary or abs(cum - r) < 1e-9
                            if cum >= r and want < 0:
                                want = j
                        if not boundary and tgt != want:
                            bad.append({"active": active, "pop": pop_active, "row": row, "r": r, "got": tgt, "expected": want})
        # batches: the selection rule is per trajectory, whatever the other rows look like (Isolation)
        rows = [[0.0, 0.125, 0.25, 0.0], [0.5, 0.5, 0.5, 0.5], [2.0, 0.0, 1.0, 0.0], [-0.5, 0.25, 0.0, 0.0], [0.0, 0.0, 0.0, 0.0]]
        dyn3 = make_dyn(DummyFSSH, 3, 4, False)

        def expect(row, active, pop, r):
            g = [max(0.0, x / pop) if j != active else 0.0 for j, x in enumerate(row)]
            ssum = sum(g)
            if ssum > 1.0:
                g = [x / ssum for x in g]
            cum, want, boundary = 0.0, -1, False
            for j, x in enumerate(g):
                cum += x
                boundary = boundary or abs(cum - r) < 1e-9
                if cum >= r and want < 0:
                    want = j
            return want, boundary

        for ia, ra in enumerate(rows):
            for ib, rb in enumerate(rows):
                for ic, rc in enumerate(rows[:3]):
                    trio = (ra, rb, rc)
                    acts = (0, (ia + ib) % 4, 3)
                    pops = (1.0, 0.25, 0.0625)
                    rs = (0.75, 0.5, 0.25)
                    dyn3._active_states = torch.tensor(acts)
                    dyn3._amp_phase.zero_()
                    hi = torch.zeros(3, 4, 4, dtype=torch.float64)
                    for t in range(3):
                        dyn3._amp_phase[t, acts[t], 0] = pops[t] ** 0.5
                        for j, x in enumerate(trio[t]):
                            if j != acts[t]:
                                hi[t, acts[t], j] = x
                    dyn3._hop_integral = hi
                    torch.rand = lambda *a, **k: torch.tensor(rs, dtype=torch.float64)
                    got = [int(x) for x in dyn3._attempt_hop()]
                    for t in range(3):
                        want, boundary = expect(trio[t], acts[t], pops[t], rs[t])
                        if not boundary and got[t] != want:
                            bad.append({"batch_rows": trio, "traj": t, "active": acts[t], "pop": pops[t], "r": rs[t], "got": got[t], "expected": want})
    finally:
        torch.rand = orig_rand
    return bad[:5]


def zero_coupling_norm():
    """(a) for zero coupling: populations are kept exactly whatever the energies."""
    dyn = make_dyn(DummyNAD, 2, 3, False)
    dyn._amp_phase[0] = torch.tensor([[0.6, 0.0, 0.0], [0.0, 0.8, 0.3], [0.0, 0.0, 0.0]], dtype=torch.float64)
    dyn._amp_phase[1] = torch.tensor([[0.5, 0.5, 0.1], [0.5, -0.5, 0.2], [0.0, 0.0, 0.0]], dtype=torch.float64)
    p0 = dyn.populations.clone()
    energies = torch.tensor([[0.1, 0.7, 2.5], [0.0, 0.0001, 5.0]], dtype=torch.float64)
    nac = torch.zeros((2, 3, 3), dtype=torch.float64)
    cache = {"energies": energies, "nac_dot": nac, "nac_vec": None}
    dyn._propagate_electronic(cache, cache, substeps=7)
    return float((dyn.populations - p0).abs().max())


def norm_order(case):
    """(a) total population under propagation with non-zero antisymmetric coupling: drift for n, 2n, 4n sub-steps of one
    nuclear step (linearly varying coupling and energies), batch of independent trajectories."""
    g = torch.Generator().manual_seed(int(case["seed"]))
    ns, nmol = int(case["nstates"]), 3
    out = []
    for sub in (int(case["sub"]), 2 * int(case["sub"]), 4 * int(case["sub"])):
        gg = torch.Generator().manual_seed(int(case["seed"]))
        dyn = make_dyn(DummyNAD, nmol, ns, False)
        dyn.timestep = float(case["dt"])
        a = torch.rand((nmol, ns, 2), generator=gg, dtype=torch.float64) - 0.5
        a = a / torch.sqrt((a * a).sum(dim=(1, 2), keepdim=True))
        dyn._amp_phase[..., 0] = a[..., 0]
        dyn._amp_phase[..., 1] = a[..., 1]
        gaps = 10.0 ** (torch.rand((nmol, ns), generator=gg, dtype=torch.float64) * 4.7 - 4.0)     # 1e-4 .. 5 eV
        e0 = torch.cumsum(gaps, dim=1)
        e1 = e0 + 0.05 * (torch.rand((nmol, ns), generator=gg, dtype=torch.float64) - 0.5)
        A = (torch.rand((nmol, ns, ns), generator=gg, dtype=torch.float64) - 0.5) * float(case["scale"])
        B = (torch.rand((nmol, ns, ns), generator=gg, dtype=torch.float64) - 0.5) * float(case["scale"])
        if case.get("spike"):
            B[:, 0, 1] += 8.0 * float(case["scale"])
        d0, d1 = A - A.transpose(1, 2), B - B.transpose(1, 2)
        p0 = dyn.populations.sum(dim=1).clone()
        dyn._propagate_electronic({"energies": e0, "nac_dot": d0, "nac_vec": None}, {"energies": e1, "nac_dot": d1, "nac_vec": None}, substeps=sub)
        out.append([float(x) for x in (dyn.populations.sum(dim=1) - p0).abs()])
    return out
