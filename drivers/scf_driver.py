"""SCF driver: runs single-point jobs on the real code with the SCF hooks recording, builds
SCFTrace traces and evaluates the self-consistency predicates on what the API returned."""

import os

import torch

from . import mdlib
from .mdlib import _verif

import seqm.basics as basics  # noqa: E402
import seqm.seqm_functions.scf_loop as scf_loop_mod  # noqa: E402
from seqm.ElectronicStructure import Electronic_Structure  # noqa: E402
from seqm.Molecule import Molecule  # noqa: E402
from seqm.seqm_functions.constants import Constants  # noqa: E402
from seqm.seqm_functions.diag import sym_eig_trunc  # noqa: E402

MOLS = {
    "h2": ([1, 1], [[0.0, 0.0, 0.0], [0.74, 0.0, 0.0]], 0, 1),
    "h2o": ([8, 1, 1], [[0.00, 0.00, 0.00], [0.96, 0.00, 0.00], [-0.24, 0.93, 0.00]], 0, 1),
    "oh-": ([8, 1], [[0.0, 0.0, 0.0], [0.97, 0.0, 0.0]], -1, 1),
    "nh4+": ([7, 1, 1, 1, 1], [[0, 0, 0], [0.59, 0.59, 0.59], [-0.59, -0.59, 0.59], [-0.59, 0.59, -0.59], [0.59, -0.59, -0.59]], 1, 1),
    "ch4": ([6, 1, 1, 1, 1], [[0, 0, 0], [0.63, 0.63, 0.63], [-0.63, -0.63, 0.63], [-0.63, 0.63, -0.63], [0.63, -0.63, -0.63]], 0, 1),
    "ch3": ([6, 1, 1, 1], [[0, 0, 0], [1.08, 0, 0], [-0.54, 0.935, 0], [-0.54, -0.935, 0]], 0, 2),
    "ch2t": ([6, 1, 1], [[0, 0, 0], [1.0, 0.3, 0], [-1.0, 0.3, 0]], 0, 3),
    "h2co": ([8, 6, 1, 1], [[-0.00104, -0.00028, 0.0], [1.20966, -0.00003, 0.0], [1.63293, 0.95572, 0.0], [1.82758, -0.85100, 0.0]], 0, 1),
    "nh3": ([7, 1, 1, 1], [[0, 0, 0.12], [0.94, 0, -0.27], [-0.47, 0.81, -0.27], [-0.47, -0.81, -0.27]], 0, 1),
    "hf": ([9, 1], [[0, 0, 0], [0.92, 0, 0]], 0, 1),
    "co2": ([8, 8, 6], [[1.16, 0, 0], [-1.16, 0, 0], [0, 0, 0]], 0, 1),
    "c2h4": ([6, 6, 1, 1, 1, 1], [[0.67, 0, 0], [-0.67, 0, 0], [1.24, 0.93, 0], [1.24, -0.93, 0], [-1.24, 0.93, 0], [-1.24, -0.93, 0]], 0, 1),
}


def build_batch(names, pad_coord=0.0, extra_pad=0, displace=0.0, seed=0):
    n = max(len(MOLS[x][0]) for x in names) + extra_pad
    sp, xyz, q, mult = [], [], [], []
    import zlib

    for x in names:
        g = torch.Generator().manual_seed(1234 + seed + zlib.crc32(x.encode()) % 100000)  # displacement depends on the molecule only
        z, c, ch, mu = MOLS[x]
        c = torch.tensor(c, dtype=torch.float64)
        if displace:
            c = c + displace * (torch.rand(c.shape, generator=g, dtype=torch.float64) - 0.5)
        k = n - len(z)
        sp.append(list(z) + [0] * k)
        xyz.append(torch.cat([c, torch.full((k, 3), float(pad_coord), dtype=torch.float64)]))
        q.append(ch)
        mult.append(mu)
    return (
        torch.tensor(sp, dtype=torch.int64),
        torch.stack(xyz),
        torch.tensor(q, dtype=torch.float64),
        torch.tensor(mult, dtype=torch.float64),
    )


def make(names, params, **kw):
    sp, xyz, q, mult = build_batch(names, **kw)
    return Molecule(Constants(), params, xyz, sp, charges=q, mult=mult)


_last = {}


def install_capture():
    """Keep what scf_loop handed to Energy.forward (F, Hcore, P, flags) for the predicates."""
    if getattr(basics, "_verif_wrapped", False):
        return
    orig = basics.scf_loop

    def scf_loop(*a, **k):
        out = orig(*a, **k)
        _last["F"], _last["P"], _last["Hcore"], _last["notconverged"] = out[0].detach(), out[2].detach(), out[3].detach(), out[10].detach()
        return out

    basics.scf_loop = scf_loop
    basics._verif_wrapped = True


def predicates(mol, es):
    """Self-consistency residuals of the returned state, per molecule (floats)."""
    P, F, H = _last["P"], _last["F"], _last["Hcore"]
    nmol = P.shape[0]
    out = []
    uhf = P.dim() == 4
    nel = (mol.const.tore[mol.species].sum(dim=1) - mol.tot_charge).to(torch.float64)
    for m in range(nmol):
        r = {}
        Pm, Fm, Hm = P[m], F[m], H[m]
        Hm = Hm.triu() + Hm.triu(1).T  # hcore.py fills the upper triangle only
        dm_pub = mol.dm[m]
        r["pub"] = float((dm_pub - Pm).abs().max())  # published density is the solver's density
        if uhf:
            r["sym"] = float((Pm - Pm.transpose(1, 2)).abs().max())
            r["tr"] = float(abs(Pm.diagonal(dim1=1, dim2=2).sum() - nel[m]))
            r["idem"] = float((Pm @ Pm - Pm).abs().max())
            r["comm"] = float((Fm @ Pm - Pm @ Fm).abs().max())
            r["efun"] = float(abs(0.5 * ((Pm[0] + Pm[1]) * Hm).sum() + 0.5 * (Pm * Fm).sum() - mol.Eelec[m]))
            # aufbau re-diagonalisation
            nh, nhy = mol.nHeavy[m : m + 1], mol.nHydro[m : m + 1]
            e, Pre = sym_eig_trunc(Fm.unsqueeze(0), nh, nhy, mol.nocc[m : m + 1])[:2]
            r["rediag"] = float((Pre[0] / 2.0 - Pm).abs().max())
        else:
            r["sym"] = float((Pm - Pm.T).abs().max())
            r["tr"] = float(abs(Pm.diagonal().sum() - nel[m]))
            r["idem"] = float((Pm @ Pm - 2.0 * Pm).abs().max())
            r["comm"] = float((Fm @ Pm - Pm @ Fm).abs().max())
            r["efun"] = float(abs(0.5 * (Pm * (Hm + Fm)).sum() - mol.Eelec[m]))
            nh, nhy = mol.nHeavy[m : m + 1], mol.nHydro[m : m + 1]
            e, Pre = sym_eig_trunc(Fm.unsqueeze(0), nh, nhy, mol.nocc[m : m + 1])[:2]
            r["rediag"] = float((Pre[0] - Pm).abs().max())
        r["qsum"] = float(abs(mol.q[m].sum() - mol.tot_charge[m]))
        r["finite"] = bool(torch.isfinite(mol.Etot[m]) and torch.isfinite(mol.force[m]).all() and torch.isfinite(mol.q[m]).all())
        out.append(r)
    return out


def split_traces(events, jid, cap_default):
    """One SCFTrace trace per scf.begin .. scf.end span."""
    traces = []
    cur = None
    for e in events:
        n = e["ev"]
        if n == "scf.begin":
            cur = {"id": f"{jid}#{len(traces)}", "nmol": e["nmol"], "cap": int(e["max_iter"]) + 1, "diis": e["converger"] == 2, "ev": [], "solver": e["converger"],
                   "sp2": e["sp2"], "_dig": None, "backward": e["backward"], "sp2_iters": 0, "sp2_max_k": 0}
        elif cur is None:
            continue
        elif n == "sp2.iter":
            cur["sp2_iters"] += 1
            cur["sp2_max_k"] = max(cur["sp2_max_k"], e["k"])
            if "mask" in e:
                calls = cur.setdefault("sp2_calls", [])
                if e["k"] == 1:
                    calls.append({"n": len(e["mask"]), "ev": [], "_dig": None})
                if calls:
                    c = calls[-1]
                    dig = e["adig"]
                    changed = [i + 1 for i in range(len(dig)) if c["_dig"] is None or dig[i] != c["_dig"][i]]
                    c["_dig"] = dig
                    c["ev"].append({"k": e["k"], "after": [i + 1 for i, x in enumerate(e["mask"]) if x], "changed": changed})
        elif n == "scf.iter":
            idx = lambda b: [i + 1 for i, x in enumerate(b) if x]  # noqa: E731
            dig = e["pdig"]
            changed = [i + 1 for i in range(len(dig)) if cur["_dig"] is not None and dig[i] != cur["_dig"][i]] if cur["_dig"] is not None else idx(e["active"])
            cur["_dig"] = dig
            cur["ev"].append(
                {
                    "name": "iter",
                    "active": idx(e["active"]),
                    "new": idx(e["new"]),
                    "ebad": idx(e["e_bad"]),
                    "dbad": idx(e["diis_bad"]) if e["diis_bad"] is not None else [],
                    "dmbad": idx(e["dm_bad"]),
                    "elbad": idx(e["el_bad"]),
                    "dmeval": idx(e["dm_evaluated"]),
                    "changed": changed,
                }
            )
        elif n == "scf.end":
            dig = e["pdig"]
            changed = [i + 1 for i in range(len(dig)) if cur["_dig"] is not None and dig[i] != cur["_dig"][i]]
            cur["ev"].append({"name": "end", "ret": [i + 1 for i, x in enumerate(e["notconverged"]) if x], "changed": changed})
            del cur["_dig"]
            for c in cur.get("sp2_calls", []):
                c.pop("_dig", None)
            traces.append(cur)
            cur = None
    if cur is not None:  # span cut short (exception / budget)
        del cur["_dig"]
        for c in cur.get("sp2_calls", []):
            c.pop("_dig", None)
        cur["truncated"] = True
        traces.append(cur)
    return traces


def run_job(job):
    """job: dict(id, mols=[names], params={...}, start='guess'|'prev'|'perturbed', cap=None|int,
    pad_coord, extra_pad).  Returns dict with traces, predicates, flags, outcome."""
    mdlib.use_stub(False)
    install_capture()
    if not job.get("loud"):
        from harness import common

        common.quiet_stdio()
    events = []
    budget = {"sp2.iter:k": int(job.get("sp2_budget", 3000))}
    _verif.configure(sink=events.append, budget=budget)
    if job.get("cap") is not None:
        scf_loop_mod.MAX_ITER = int(job["cap"])
    params = mdlib.seqm_params(**job.get("params", {}))
    out = {"id": job["id"]}
    try:
        mol = make(job["mols"], params, pad_coord=job.get("pad_coord", 0.0), extra_pad=job.get("extra_pad", 0))
        mol.verbose = False
        es = Electronic_Structure(params)
        P0 = None
        if job.get("start") in ("prev", "perturbed"):
            mol0 = make(job["mols"], dict(params), pad_coord=job.get("pad_coord", 0.0), extra_pad=job.get("extra_pad", 0), displace=0.08)
            mol0.verbose = False
            es(mol0)
            P0 = mol0.dm.clone()
            if job["start"] == "perturbed":
                g = torch.Generator().manual_seed(5)
                noise = 0.02 * (torch.rand(P0.shape, generator=g, dtype=P0.dtype) - 0.5)
                mask = (P0 != 0).to(P0.dtype)  # keep the padding structure
                P0 = P0 + mask * (noise + noise.transpose(-1, -2))
            events.clear()
        es(mol, P0=P0)
        out["outcome"] = "returned"
        out["flags"] = [bool(x) for x in es.notconverged.tolist()]
        out["pred"] = predicates(mol, es)
        out["Etot"] = [float(x) for x in mol.Etot]
    except _verif.VerifBudgetExceeded as ex:
        out["outcome"] = "budget"
        out["error"] = str(ex)
    except Exception as ex:  # noqa
        out["outcome"] = "raised"
        out["error"] = f"{type(ex).__name__}: {ex}"
    out["traces"] = split_traces(events, job["id"], job.get("cap"))
    return out
