"""CLI: run one MD segment in this process (used under strace).  usage: python -m drivers.md_segment <case.json> <workdir> <seg>"""
import json
import sys

from . import mdlib


def main():
    case = json.load(open(sys.argv[1]))
    wd = sys.argv[2]
    seg = int(sys.argv[3])
    import os

    r = mdlib.run_segment(case, wd, seg, crash=None, trace_path=os.path.join(wd, f"trace.{seg}.ndjson"), stub=case.get("stub", True))
    sys.exit(0 if r["status"] == "finished" else 10)


main()
