"""Syscall-level kill enumeration: SIGKILL injected by strace at the N-th write / pwrite64 / rename that touches
the HDF5, XYZ, temp-checkpoint or checkpoint files."""

import json
import os
import re
import subprocess

from harness import common, mdtrace

from . import mdexec, mdlib

SYSCALLS = ["write", "pwrite64", "rename", "ftruncate"]
_RE = re.compile(r"^(?:\[pid\s+\d+\]\s+)?(\w+)\((.*)$")
INTEREST = (".h5", ".xyz", ".tmp_ckpt_", ".restart.pt")


def env():
    e = dict(os.environ)
    e["LANL_PYSEQM_VERIF"] = "1"
    e["PYTHONPATH"] = common.REPO + ":" + common.VERIF
    e["OMP_NUM_THREADS"] = "1"
    e["PYTHONWARNINGS"] = "ignore"
    return e


def available():
    try:
        p = subprocess.run(["strace", "-o", "/dev/null", "-e", "trace=write", "true"], capture_output=True, timeout=20)
        return p.returncode == 0
    except Exception:
        return False


def dry_run(case, wd):
    """Returns list of (syscall, ordinal among that syscall, file kind) for interesting calls, in order."""
    os.makedirs(wd, exist_ok=True)
    cj = os.path.join(wd, "case.json")
    json.dump(case, open(cj, "w"))
    log = os.path.join(wd, "strace.log")
    subprocess.run(["strace", "-f", "-y", "-o", log, "-e", "trace=" + ",".join(SYSCALLS), "/venv/bin/python", "-W", "ignore", "-m", "drivers.md_segment", cj, os.path.join(wd, "dry"), "0"],
                   env=env(), cwd=common.VERIF, stdout=subprocess.DEVNULL, stderr=subprocess.DEVNULL, timeout=600)
    counts = {s: 0 for s in SYSCALLS}
    pts = []
    with open(log) as f:
        for ln in f:
            ln = re.sub(r"^\d+\s+", "", ln)
            m = _RE.match(ln)
            if not m or m.group(1) not in counts:
                continue
            name = m.group(1)
            if "resumed>" in ln:
                continue
            counts[name] += 1
            kind = next((k for k in INTEREST if k in m.group(2)), None)
            if kind:
                pts.append((name, counts[name], kind))
    common.rm(os.path.join(wd, "dry"))
    return pts


def kill_run(job):
    """job: {case, wd, syscall, when, refdir}.  Runs segment 0 under strace with the kill armed, observes, resumes."""
    case, wd = job["case"], job["wd"]
    os.makedirs(wd, exist_ok=True)
    cj = os.path.join(wd, "case.json")
    json.dump(case, open(cj, "w"))
    p = subprocess.run(["strace", "-f", "-o", "/dev/null", "-e", "trace=" + job["syscall"], "-e", f"inject={job['syscall']}:signal=SIGKILL:when={job['when']}",
                        "/venv/bin/python", "-W", "ignore", "-m", "drivers.md_segment", cj, wd, "0"], env=env(), cwd=common.VERIF, stdout=subprocess.DEVNULL, stderr=subprocess.DEVNULL, timeout=600)
    killed = p.returncode != 0
    molid = case.get("molid", [0])
    segs = []
    obs = mdlib.observe(wd, molid, refdir=job["refdir"])
    segs.append({"events": mdlib.load_trace(os.path.join(wd, "trace.0.ndjson")), "status": "hard" if killed else "finished", "obs": obs, "scr": [], "crash": f"{job['syscall']}#{job['when']}"})
    problems = []
    if killed and obs["ckpt"]["loadable"] is False:
        problems.append({"kind": "checkpoint_unloadable", "error": obs["ckpt"].get("error")})
    seg = 1
    while killed and obs["ckpt"]["done"] >= 0 and obs["ckpt"]["loadable"] and seg < 3:
        st = mdexec._run_one_segment(case, wd, seg, None, case.get("stub", True))
        obs = mdlib.observe(wd, molid, refdir=job["refdir"])
        segs.append({"events": mdlib.load_trace(os.path.join(wd, f"trace.{seg}.ndjson")), "status": st, "obs": obs, "scr": [], "crash": None})
        if st != "finished":
            err = ""
            ep = os.path.join(wd, f"error.{seg}.txt")
            if os.path.exists(ep):
                err = open(ep).read()[-800:]
            problems.append({"kind": "resume_failed_after_kill", "status": st, "error": err})
            break
        killed = False
    trace, nprob = mdtrace.normalize(case, segs, case["id"])
    if trace["ev"] and trace["ev"][-1]["name"] == "final":
        trace["ev"][-1]["checkscr"] = False
    common.rm(wd)
    return {"trace": trace, "problems": problems + [{"kind": "trace_normalisation", "what": x} for x in nprob], "killed": segs[0]["status"] == "hard",
            "segments": [{"status": s["status"], "crash": s["crash"], "n_events": len(s["events"])} for s in segs], "final_obs": segs[-1]["obs"], "final_status": segs[-1]["status"], "unarmed": []}
