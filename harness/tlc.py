"""Thin wrapper around TLC: run a module with a generated cfg, parse the outcome."""

import json
import os
import re
import shutil
import subprocess
import tempfile
import time

SPEC_DIR = os.path.join(os.path.dirname(os.path.dirname(os.path.abspath(__file__))), "spec")


class TLCResult:
    def __init__(self):
        self.ok = False
        self.generated = 0
        self.distinct = 0
        self.depth = 0
        self.violated = None  # name of violated invariant/property
        self.error = None  # machinery error text
        self.stdout = ""
        self.printed = []  # PrintT payloads (raw strings)
        self.coverage = {}  # action -> (count_total, distinct)
        self.wall = 0.0
        self.counterexample = []

    def __repr__(self):
        return (
            f"TLCResult(ok={self.ok}, gen={self.generated}, distinct={self.distinct}, depth={self.depth}, "
            f"violated={self.violated}, error={self.error and self.error[:200]!r})"
        )


def fmt_value(v):
    """Python value -> TLA+ cfg literal."""
    if isinstance(v, bool):
        return "TRUE" if v else "FALSE"
    if isinstance(v, int):
        return str(v)
    if isinstance(v, str):
        return '"' + v + '"'
    if isinstance(v, (set, frozenset)):
        return "{" + ", ".join(fmt_value(x) for x in sorted(v, key=repr)) + "}"
    if isinstance(v, (list, tuple)):
        return "<<" + ", ".join(fmt_value(x) for x in v) + ">>"
    raise TypeError(v)


class Raw(str):
    """A cfg right-hand side written verbatim (e.g. a model value or an operator name)."""


def write_cfg(
    path,
    constants=None,
    substitutions=None,
    invariants=(),
    properties=(),
    spec=None,
    init=None,
    next_=None,
    constraint=None,
    action_constraint=None,
    postcondition=None,
    view=None,
    deadlock=False,
    symmetry=None,
):
    lines = []
    if spec:
        lines.append(f"SPECIFICATION {spec}")
    else:
        lines.append(f"INIT {init or 'Init'}")
        lines.append(f"NEXT {next_ or 'Next'}")
    if constants or substitutions:
        lines.append("CONSTANTS")
        for k, v in (constants or {}).items():
            rhs = v if isinstance(v, Raw) else fmt_value(v)
            lines.append(f"  {k} = {rhs}")
        for k, v in (substitutions or {}).items():
            lines.append(f"  {k} <- {v}")
    for inv in invariants:
        lines.append(f"INVARIANT {inv}")
    for p in properties:
        lines.append(f"PROPERTY {p}")
    if constraint:
        lines.append(f"CONSTRAINT {constraint}")
    if action_constraint:
        lines.append(f"ACTION_CONSTRAINT {action_constraint}")
    if postcondition:
        lines.append(f"POSTCONDITION {postcondition}")
    if view:
        lines.append(f"VIEW {view}")
    if symmetry:
        lines.append(f"SYMMETRY {symmetry}")
    lines.append(f"CHECK_DEADLOCK {'TRUE' if deadlock else 'FALSE'}")
    with open(path, "w") as f:
        f.write("\n".join(lines) + "\n")


_RE_STATES = re.compile(r"(\d+) states generated, (\d+) distinct states found")
_RE_DEPTH = re.compile(r"The depth of the complete state graph search is (\d+)")
_RE_INV = re.compile(r"Error: Invariant (\S+) is violated")
_RE_ACTPROP = re.compile(r"Error: Action property (\S+) is violated")
_RE_COVER = re.compile(r"^<(\w+) line (\d+), col \d+ to line \d+, col \d+ of module (\w+)>: (\d+):(\d+)", re.M)


def run(
    module,
    cfg_kwargs,
    workers=None,
    env=None,
    timeout=1200,
    simulate=None,
    coverage=False,
    scratch=None,
    depth=None,
    extra_args=(),
    dfs_queue=False,
    spec_dir=None,
    cfg_name=None,
):
    """Run TLC on spec/<module>.tla with a cfg generated from cfg_kwargs."""
    spec_dir = spec_dir or SPEC_DIR
    own = scratch is None
    scratch = scratch or tempfile.mkdtemp(prefix="tlc_")
    res = TLCResult()
    try:
        cfg_path = os.path.join(scratch, (cfg_name or module) + ".cfg")
        write_cfg(cfg_path, **cfg_kwargs)
        meta = os.path.join(scratch, "meta_" + module + "_" + str(os.getpid()) + "_" + str(time.time_ns()))
        cmd = ["tlc", "-workers", str(workers or "auto"), "-metadir", meta, "-noGenerateSpecTE", "-config", cfg_path]
        if simulate:
            cmd += ["-simulate", simulate]
        if depth:
            cmd += ["-depth", str(depth)]
        if coverage:
            cmd += ["-coverage", "1"]
        cmd += list(extra_args)
        cmd += [module + ".tla"]
        e = dict(os.environ)
        jto = e.get("JAVA_TOOL_OPTIONS", "")
        if dfs_queue:
            jto += " -Dtlc2.tool.queue.IStateQueue=StateDeque"
        e["JAVA_TOOL_OPTIONS"] = jto.strip()
        if not e["JAVA_TOOL_OPTIONS"]:
            del e["JAVA_TOOL_OPTIONS"]
        if env:
            e.update({k: str(v) for k, v in env.items()})
        t0 = time.time()
        try:
            p = subprocess.run(
                cmd, cwd=spec_dir, env=e, stdout=subprocess.PIPE, stderr=subprocess.STDOUT, text=True, timeout=timeout
            )
            out = p.stdout
            rc = p.returncode
        except subprocess.TimeoutExpired as ex:
            out = (ex.stdout or b"").decode() if isinstance(ex.stdout, bytes) else (ex.stdout or "")
            rc = -9
            res.error = f"TLC timeout after {timeout}s"
            subprocess.run(["pkill", "-f", meta], check=False)
        res.wall = time.time() - t0
        res.stdout = out
        m = None
        for m in _RE_STATES.finditer(out):
            pass
        if m:
            res.generated, res.distinct = int(m.group(1)), int(m.group(2))
        m = _RE_DEPTH.search(out)
        if m:
            res.depth = int(m.group(1))
        m = _RE_INV.search(out) or _RE_ACTPROP.search(out)
        if m:
            res.violated = m.group(1)
        elif re.search(r"Temporal propert(y|ies) .*violated", out):
            mm = re.search(r"Temporal property (\S+) was violated", out)
            res.violated = mm.group(1) if mm else "<temporal>"
        elif "Deadlock reached" in out:
            res.violated = "<deadlock>"
        elif "is violated" in out and "Error:" in out:
            mm = re.search(r"Error: (.*) is violated", out)
            res.violated = mm.group(1) if mm else "<unknown>"
        for mm in _RE_COVER.finditer(out):
            key = mm.group(1)
            res.coverage[key] = (int(mm.group(4)), int(mm.group(5)))
        res.printed = [ln for ln in out.splitlines() if ln.startswith('"') or ln.startswith("<<") or ln.startswith("[") or ln.startswith("{")]
        if res.violated:
            res.counterexample = _parse_cex(out)
        finished = "Model checking completed. No error has been found." in out or (
            simulate and ("states generated" in out or "Finished in" in out) and "Error:" not in out
        )
        if res.violated is None and not finished and res.error is None:
            # parse/semantic/eval error
            idx = out.find("Error:")
            res.error = out[idx : idx + 3000] if idx >= 0 else (out[-3000:] or f"tlc rc={rc}")
        res.ok = res.violated is None and res.error is None
        return res
    finally:
        if own:
            shutil.rmtree(scratch, ignore_errors=True)
        else:
            for d in os.listdir(scratch):
                if d.startswith("meta_"):
                    shutil.rmtree(os.path.join(scratch, d), ignore_errors=True)


def _parse_cex(out):
    """Return list of (header, text) for the states of a printed counterexample."""
    states = []
    cur = None
    for ln in out.splitlines():
        if re.match(r"^State \d+:", ln):
            cur = [ln, []]
            states.append(cur)
        elif cur is not None:
            if ln.strip() == "" or ln.startswith("Finished") or re.match(r"^\d+ states generated", ln):
                cur = None
            else:
                cur[1].append(ln)
    return [(h, "\n".join(b)) for h, b in states]


def sany(module, spec_dir=None):
    p = subprocess.run(
        ["tla-sany", module + ".tla"], cwd=spec_dir or SPEC_DIR, stdout=subprocess.PIPE, stderr=subprocess.STDOUT, text=True
    )
    return p.returncode == 0 and "error" not in p.stdout.lower().replace("errors: 0", ""), p.stdout


def read_ndjson(path):
    out = []
    with open(path) as f:
        for ln in f:
            ln = ln.strip()
            if ln:
                out.append(json.loads(ln))
    return out


def write_ndjson(path, rows):
    with open(path, "w") as f:
        for r in rows:
            f.write(json.dumps(r) + "\n")
