"""Normalise recorded MD executions into MDRunTrace traces and validate them with TLC."""

import json
import os

from . import tlc
from .tlc import Raw

STREAMS = ["data", "coordinates", "velocities", "forces", "na", "tdm"]

DESIGN = dict(VecGateMode="own", TdmGateMode="data", TdmResumeMode="written", XyzResumeMode="truncate", ResumeExact=True)
ALL_PCS = {"step", "na", "stepdone", "scr", "data", "data2", "vec", "xyz", "flushh", "flushx", "tmp", "tmp2", "replace", "next"}


def model_cfg(case):
    cad = case["cad"]
    return {
        "steps": int(case["steps"]),
        "cad": {s: int(cad.get(s, 0)) for s in STREAMS},
        "xyz": int(case.get("xyz", 0)),
        "ckpt": int(case.get("ckpt", 0)),
        "print": int(case.get("print", 1)),
    }


def _cur(ev, problems):
    c = ev.get("cur")
    if not c:
        return {s: 0 for s in STREAMS}
    vals = list(c.values())
    for v in vals[1:]:
        if v != vals[0]:
            problems.append(f"cursors differ between molids at seq {ev.get('seq')}: {c}")
    return {s: int(vals[0].get(s, 0)) for s in STREAMS}


def normalize(case, segments, tid):
    """segments: [{"events":[hook events], "status": "finished"|"soft"|"hard", "obs": observe() result,
    "scr": [...]}].  Returns (trace dict, problems list)."""
    problems = []
    first = str(case.get("molid", [0])[0])
    ev = []
    cks = []
    scr = []
    hard = False
    for seg in segments:
        started = False
        for e in seg["events"]:
            n = e.get("ev", "")
            if not n.startswith("md."):
                continue  # hooks of other subsystems (scf.*, sp2.*) are not part of the run-loop trace
            if n == "md.init":
                started = True
                ev.append({"name": "init", "offset": int(e["offset"]), "cur": _cur(e, problems)})
                logged = e.get("cad", {})
                want = model_cfg(case)
                for s in STREAMS:
                    if int(logged.get(s, 0)) != want["cad"][s]:
                        problems.append(f"configured cadence of {s} differs: logged {logged.get(s)} wanted {want['cad'][s]}")
                continue
            if not started:
                continue
            if n == "md.data.mid":
                if str(e.get("mol")) == first:
                    ev.append({"name": "data.mid", "step": int(e["step"])})
            elif n in ("md.step", "md.xyz", "md.flush"):
                ev.append({"name": n[3:], "i": int(e["i"])})
            elif n in ("md.data", "md.vec", "md.na", "md.iter_end"):
                ev.append({"name": n[3:], "i": int(e["i"]), "cur": _cur(e, problems)})
            elif n in ("md.ckpt_tmp", "md.ckpt_replace"):
                ev.append({"name": n[3:], "step_done": int(e["step_done"])})
                if n == "md.ckpt_replace":
                    cks.append(int(e["step_done"]))
            elif n == "md.close":
                if seg["status"] == "finished":
                    ev.append({"name": "close"})
            elif n in ("md.ckpt", "md.resume_open"):
                pass
            else:
                problems.append(f"unknown event {n}")
        scr += seg.get("scr", [])
        if seg["status"] in ("soft", "hard"):
            ev.append({"name": "crash", "kind": seg["status"]})
            hard = hard or seg["status"] == "hard"
        obs = seg["obs"]
        o = obs["mols"][first]
        h5 = o["h5"]
        if h5.get("absent") and not any(int(case["cad"].get(s, 0)) for s in STREAMS):
            h5 = {"ok": True, "rows": {}}  # no HDF5 stream requested: no file is the expected state
        rec = {
            "name": "observe",
            "h5ok": bool(h5.get("ok")),
            "dsk": {s: list(h5["rows"].get(s, [])) for s in STREAMS} if h5.get("ok") else {s: [] for s in STREAMS},
            "xyz": list(o["xyz"]["labels"]),
            "torn": bool(o["xyz"]["torn"]),
            "ckpt": int(obs["ckpt"]["done"]),
            "tmpfiles": len(obs["ckpt"]["litter"]),
        }
        ev.append(rec)
        if seg["status"] == "finished":
            ev.append({"name": "final", "scr": scr, "cks": cks, "checkscr": not hard})
    return {"id": tid, "cfg": model_cfg(case), "ev": ev, "resumed_from": -1}, problems


def validate(traces, scratch, consts=None, flush_rows=100, max_crash=3, timeout=1800):
    """Run MDRunTrace over all traces; returns {id: {"accepted":bool, "l":..., "n":..., "pc":..., "i":..., "bad":...}}, TLCResult"""
    path = os.path.join(scratch, "traces.ndjson")
    tlc.write_ndjson(path, traces)
    c = dict(DESIGN)
    if consts:
        c.update(consts)
    c.update(
        Configs=Raw("{}"),
        MaxCrash=max_crash,
        CrashKinds={"soft", "hard"},
        CrashPcs=ALL_PCS,
        FlushRows=flush_rows,
        RecordHist=False,
    )
    res = tlc.run(
        "MDRunTrace",
        dict(spec="TSpec", constants=c, constraint="Track", postcondition="Post"),
        workers=1,
        env={"TRACE_FILE": path},
        scratch=scratch,
        timeout=timeout,
    )
    out = {}
    for ln in res.stdout.splitlines():
        if ln.startswith('"{'):
            try:
                rec = json.loads(json.loads(ln))
            except Exception:
                continue
            r = rec["r"]
            out[rec["id"]] = {
                "accepted": r["l"] == rec["n"] and r["bad"] == "-",
                "l": r["l"],
                "n": rec["n"],
                "pc": r["pc"],
                "i": r["i"],
                "bad": r["bad"],
            }
    return out, res
