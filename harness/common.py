"""Shared helpers: evidence, known findings, violation reporting, fork pool, scratch dirs."""

import hashlib
import json
import os
import shutil
import signal
import sys
import tempfile
import time
import traceback

VERIF = os.path.dirname(os.path.dirname(os.path.abspath(__file__)))
REPO = os.environ.get("VERIF_REPO", "/repo")
OUT = os.environ.get("VERIF_OUT") or os.path.join(VERIF, "out")
EVIDENCE = os.environ.get("VERIF_EVIDENCE_DIR") or os.path.join(VERIF, "evidence")
FINDINGS = os.path.join(VERIF, "known_findings.json")


def seed():
    try:
        return int(os.environ.get("VERIF_SEED", "0"))
    except ValueError:
        return 0


def scratch_dir(tag):
    base = os.environ.get("VERIF_SCRATCH") or os.path.join(OUT, "scratch")
    os.makedirs(base, exist_ok=True)
    return tempfile.mkdtemp(prefix=tag + "_", dir=base)


def rm(path):
    shutil.rmtree(path, ignore_errors=True)


# ----------------------------------------------------------------------------------------
# Known findings / violations


def load_findings():
    if not os.path.exists(FINDINGS):
        return []
    with open(FINDINGS) as f:
        return json.load(f)["findings"]


def _match(entry_match, rec):
    for k, v in entry_match.items():
        if k not in rec:
            return False
        rv = rec[k]
        if isinstance(v, list):
            if rv not in v:
                return False
        elif rv != v:
            return False
    return True


class Reporter:
    """Collects violations for one property; classifies them against known_findings.json."""

    def __init__(self, prop, tier):
        self.prop = prop
        self.tier = tier
        self.known_hits = {}  # finding id -> count
        self.violations = []
        self.findings = [f for f in load_findings() if f["property"] == prop and f.get("status") == "known"]
        self.t0 = time.time()
        self.notes = []
        self.machinery_errors = []
        rm(os.path.join(OUT, "replays", prop))

    def violation(self, kind, detail, **match_fields):
        """Report one violation. match_fields are the classification keys tested against
        known_findings.json entries (all keys of an entry's `match` must be present and equal)."""
        rec = dict(match_fields)
        rec["kind"] = kind
        for f in self.findings:
            if _match(f["match"], rec):
                self.known_hits.setdefault(f["id"], [f, 0])[1] += 1
                return "known"
        rec["detail"] = detail
        self.violations.append(rec)
        return "violation"

    def machinery(self, msg):
        self.machinery_errors.append(msg)

    def finish(self, coverage, assumptions=(), level="model_checking"):
        """Print verdict lines, write evidence, return exit code."""
        wall = time.time() - self.t0
        for fid, (f, n) in sorted(self.known_hits.items()):
            print(f"KNOWN-FINDING: property={self.prop} {f['what']} [id={fid}, hits={n}]")
        rc = 0
        if self.violations:
            os.makedirs(os.path.join(OUT, "replays", self.prop), exist_ok=True)
            seen = set()
            for v in self.violations:
                blob = json.dumps(v, sort_keys=True, default=repr)
                h = hashlib.sha1(blob.encode()).hexdigest()[:12]
                if h in seen:
                    continue
                seen.add(h)
                path = os.path.join(OUT, "replays", self.prop, f"{v['kind']}_{h}.json")
                with open(path, "w") as fh:
                    json.dump(v, fh, indent=1, default=repr)
                print(f"VIOLATION property={self.prop} replay={path}")
                if len(seen) >= 25:
                    print(f"... {len(self.violations)} violations in total (first 25 distinct written)")
                    break
            rc = 1
        cov = dict(coverage)
        cov.setdefault("known_finding_hits", {fid: n for fid, (f, n) in self.known_hits.items()})
        if self.notes:
            cov.setdefault("notes", self.notes)
        ev = {
            "property_id": self.prop,
            "tier": self.tier,
            "seed": seed(),
            "level": level,
            "coverage": cov,
            "assumptions": list(assumptions),
            "wall_s": round(wall, 2),
            "violations": len(self.violations),
        }
        os.makedirs(EVIDENCE, exist_ok=True)
        with open(os.path.join(EVIDENCE, f"{self.prop}.json"), "w") as fh:
            json.dump(ev, fh, indent=1, default=repr)
        if self.machinery_errors:
            for m in self.machinery_errors[:10]:
                print(f"MACHINERY-ERROR property={self.prop}: {m}", file=sys.stderr)
            if rc == 0:
                rc = 2
        print(
            f"[{self.prop}] tier={self.tier} violations={len(self.violations)} "
            f"known={sum(n for _, n in self.known_hits.values())} wall={wall:.1f}s rc={rc}"
        )
        return rc


# ----------------------------------------------------------------------------------------
# Fork pool: one child per case, children may die hard.


def run_forked(cases, fn, nproc=None, timeout=600, pass_index=False):
    """Run fn(case) in a forked child for each case; returns list of dicts
    {"ok":bool, "result":..., "exit":int, "error":str}. The parent must have imported
    everything heavy already (and be single-threaded)."""
    nproc = nproc or min(16, os.cpu_count() or 4)
    tmp = scratch_dir("pool")
    results = [None] * len(cases)
    running = {}  # pid -> (idx, t0)
    nxt = 0
    try:
        while nxt < len(cases) or running:
            while nxt < len(cases) and len(running) < nproc:
                idx = nxt
                nxt += 1
                sys.stdout.flush()
                sys.stderr.flush()
                pid = os.fork()
                if pid == 0:
                    code = 0
                    try:
                        r = fn(idx, cases[idx]) if pass_index else fn(cases[idx])
                        with open(os.path.join(tmp, f"{idx}.json.part"), "w") as fh:
                            json.dump({"ok": True, "result": r}, fh, default=repr)
                        os.replace(os.path.join(tmp, f"{idx}.json.part"), os.path.join(tmp, f"{idx}.json"))
                    except BaseException as ex:  # noqa
                        try:
                            with open(os.path.join(tmp, f"{idx}.json"), "w") as fh:
                                json.dump(
                                    {"ok": False, "error": f"{type(ex).__name__}: {ex}", "tb": traceback.format_exc()[-4000:]},
                                    fh,
                                )
                        except Exception:
                            pass
                        code = 3
                    finally:
                        sys.stdout.flush()
                        sys.stderr.flush()
                        os._exit(code)
                running[pid] = (idx, time.time())
            # reap
            try:
                pid, status = os.waitpid(-1, os.WNOHANG)
            except ChildProcessError:
                pid = 0
            if pid == 0:
                now = time.time()
                for p, (idx, t0) in list(running.items()):
                    if now - t0 > timeout:
                        try:
                            os.kill(p, signal.SIGKILL)
                        except ProcessLookupError:
                            pass
                time.sleep(0.005)
                continue
            if pid not in running:
                continue
            idx, t0 = running.pop(pid)
            path = os.path.join(tmp, f"{idx}.json")
            code = os.waitstatus_to_exitcode(status)
            if os.path.exists(path):
                with open(path) as fh:
                    r = json.load(fh)
            else:
                r = {"ok": False, "error": f"child exit {code} without result"}
            r["exit"] = code
            r["wall"] = time.time() - t0
            results[idx] = r
        return results
    finally:
        rm(tmp)


def quiet_stdio():
    """In a child: silence stdout (MD loops print a lot)."""
    devnull = os.open(os.devnull, os.O_WRONLY)
    os.dup2(devnull, 1)


def sha(obj):
    return hashlib.sha1(json.dumps(obj, sort_keys=True, default=repr).encode()).hexdigest()[:12]
