"""C05 - batching, padding, ordering and atom relabelling are transparent.

1. TLC evaluates the Batch properties (Transparent, PermInvariant, PadInvariant, PackBijective)
   on every batch of the enumerated lattice: the index structure of a molecule inside any batch
   is its solo structure shifted, independent of the other rows, the row order and the padding.
2. Every exported batch is run through the real Parser (padding coordinates 0 / 1e3 / copy of a
   real atom) and every returned index tensor is compared exactly with the specification's; the
   real pack/unpack are decoded on self-describing matrices and compared with the spec's pack map
   (single, homogeneous-batch and mixed-batch paths).
3. Value transparency is monitored on TLC-independent layouts: each molecule inside a batch
   (all row orders, extra padding, padding coordinates) vs alone, per solver, with the
   tolerance of DESIGN 3.8; padding atoms must have exactly zero force; same-element relabelling
   permutes per-atom outputs only.  Per-molecule convergence masks are C03's Frozen/NoReactivation.
"""

import itertools
import os

from drivers import batch_driver, scf_driver
from harness import common

from . import batchshared as BS

PROP = "C05"
TOL_E = 1.0e-7
TOL_F = 1.0e-6


def layouts(tier, rng):
    scf_driver.MOLS["n2"] = ([7, 7], [[0.0, 0.0, 0.0], [1.10, 0.05, 0.0]], 0, 1)
    pool = ["h2", "h2o", "ch4", "oh-", "nh3", "hf", "n2"]
    combos = [list(c) for c in itertools.combinations(pool, 2)] + [["h2o", "h2", "oh-"], ["ch4", "h2o", "h2"], ["nh3", "hf", "h2o"]]
    solvers = [dict(scf_converger=[0, 0.2]), dict(scf_converger=[1]), dict(scf_converger=[2]), dict(scf_converger=[1], sp2=[True, 1e-7]), dict(scf_converger=[2], sp2=[True, 1e-7])]
    out = []
    for mols in combos:
        for order in itertools.permutations(range(len(mols))):
            for extra in (0, 2):
                for padc in (0.0, 1.0e3):
                    for sv in solvers:
                        p = dict(sv)
                        p["scf_eps"] = 1.0e-10
                        out.append(dict(mols=mols, order=list(order), extra_pad=extra, pad_coord=padc, params=p))
    # loose purification threshold (per-molecule spectral bounds matter most), unrestricted references in mixed batches
    scf_driver.MOLS.setdefault("h2co", ([8, 6, 1, 1], [[-0.00104, -0.00028, 0.0], [1.20966, -0.00003, 0.0], [1.63293, 0.95572, 0.0], [1.82758, -0.85100, 0.0]], 0, 1))
    fixed = []
    for mols in (["h2", "h2co", "nh3"], ["h2co", "h2"], ["nh3", "h2", "h2o"]):
        for order in ([list(range(len(mols))), list(reversed(range(len(mols))))]):
            fixed.append(dict(mols=mols, order=order, extra_pad=0, pad_coord=0.0, params=dict(scf_converger=[1], sp2=[True, 1e-5], scf_eps=1.0e-10)))
    for mols in (["ch4", "nh3", "h2o"], ["ch3", "h2o"], ["h2o", "ch2t", "nh3"], ["ch3", "ch2t", "h2"]):
        for order in ([list(range(len(mols))), list(reversed(range(len(mols))))]):
            for cv in ([1], [0, 0.3]):
                fixed.append(dict(mols=mols, order=order, extra_pad=0, pad_coord=0.0, params=dict(scf_converger=cv, UHF=True, scf_eps=1.0e-10)))
    for mols in (["h2o", "ch4"], ["nh3", "h2", "h2co"]):
        for order in ([list(range(len(mols))), list(reversed(range(len(mols))))]):
            fixed.append(dict(mols=mols, order=order, extra_pad=1, pad_coord=0.0, params=dict(scf_converger=[1], dispersion=True, scf_eps=1.0e-10)))
    # excited states on batches of one species at different geometries (rows finish their Davidson at different iterations)
    scf_driver.MOLS.setdefault("h2co_d", ([8, 6, 1, 1], [[-0.02, 0.03, 0.05], [1.24, -0.02, -0.03], [1.60, 0.99, 0.10], [1.86, -0.80, -0.12]], 0, 1))
    for order in ([0, 1], [1, 0]):
        for meth in ("cis", "rpa"):
            for nst in (1, 2):
                fixed.append(dict(mols=["h2co", "h2co_d"], order=order, extra_pad=0, pad_coord=0.0, params=dict(scf_converger=[1], scf_eps=1.0e-10, excited_states={"n_states": nst, "method": meth, "tolerance": 1e-8})))
    out += fixed
    # finite electronic temperature (Krylov XL-BOMD branch) and excited states in mixed batches
    for mols in (["h2o", "h2co"], ["oh-", "h2co"], ["nh3", "h2o"]):
        for order in ([0, 1], [1, 0]):
            for tel in (1500.0, 8000.0):
                out.append(dict(mols=mols, order=order, extra_pad=0, pad_coord=0.0, params=dict(scf_converger=[1], scf_eps=1.0e-10), path="xlksa", T_el=tel))
    for mols in (["h2o", "h2co"], ["nh3", "h2co"], ["h2o", "ch4"]):
        for nst in (2, 3):
            out.append(dict(mols=mols, order=[0, 1], extra_pad=0, pad_coord=0.0, params=dict(scf_converger=[1], scf_eps=1.0e-10, excited_states={"n_states": nst, "method": "cis", "tolerance": 1e-8})))
    if tier == "quick":
        special = [l for l in out if l.get("path") == "xlksa" or "excited_states" in l["params"]]
        out = [l for l in out if l not in special]
        must = [l for l in out if l["mols"] == ["ch4", "n2"] and l["params"]["scf_converger"] == [1] and "sp2" not in l["params"] and l["extra_pad"] == 0 and l["pad_coord"] == 0.0]
        must += [l for l in special if (l.get("path") == "xlksa" and l["mols"] in (["oh-", "h2co"], ["h2o", "h2co"]) and l["T_el"] == 8000.0 and l["order"] == [0, 1])
                 or ("excited_states" in l["params"] and l["mols"] == ["h2o", "h2co"] and l["params"]["excited_states"]["n_states"] == 3)]
        must += rng.sample([l for l in special if l not in must], 3)
        must += [l for l in fixed if l["order"] == list(range(len(l["mols"])))]
        out = [l for l in out if l not in fixed]
        must += [l for l in out if l["mols"] == ["h2o", "h2", "oh-"] and l["order"] == [2, 0, 1] and l["extra_pad"] == 2 and l["pad_coord"] == 1.0e3 and "sp2" in l["params"] and l["params"]["scf_converger"] == [1]]
        out = must + rng.sample([l for l in out if l not in must], 14)
    else:
        out = rng.sample(out, min(len(out), 400))
    return out


def cmp(a, b, tol):
    if isinstance(a, float):
        return abs(a - b)
    if len(a) != len(b):
        return float("inf")
    return max([abs(x - y) for x, y in zip(a, b)] or [0.0])


def main(tier):
    rep = common.Reporter(PROP, tier)
    rng = __import__("random").Random(common.seed() + 5)
    scratch = common.scratch_dir("c05")
    try:
        r = BS.model_check(tier, scratch)
        if r.error:
            rep.machinery("TLC Batch: " + r.error[:500])
        elif r.violated:
            rep.violation("model_property_violated", {"violated": r.violated, "cex": r.counterexample[-1:]}, model=True)
        recs, table, g, maxsize = BS.export(tier, scratch)
        bad, errs = BS.index_conformance(recs)
        for e in errs:
            rep.machinery("index conformance: " + str(e))
        for b in bad:
            rep.violation("index_map_differs_from_spec", b, what=b["mismatches"][0].get("what"), padded=any(0 in row for row in b["batch"]["sp"]))
        pb = common.run_forked([0], lambda _: batch_driver.check_pack(table, maxsize))[0]
        if not pb.get("ok"):
            rep.machinery("pack check failed: " + str(pb.get("error")))
        else:
            for b in pb["result"]:
                rep.violation("pack_map_differs_from_spec", b, what=b["what"])
        # ---- values ---------------------------------------------------------------------------
        lay = layouts(tier, rng)
        solo_jobs = {}
        for l in lay:
            for m in l["mols"]:
                k = common.sha([m, l["params"], l.get("path"), l.get("T_el")])
                solo_jobs.setdefault(k, dict(mols=[m], params=l["params"], path=l.get("path"), T_el=l.get("T_el")))
        keys = sorted(solo_jobs)
        allres = common.run_forked([solo_jobs[k] for k in keys] + lay, batch_driver.run_values, timeout=900)
        solo = {}
        for k, rr in zip(keys, allres[: len(keys)]):
            if rr.get("ok"):
                solo[k] = list(rr["result"].values())[0]
            else:
                rep.machinery("solo job failed: " + str(rr.get("error")))
        worst = {}
        n_cmp = 0
        samples = []
        for l, rr in zip(lay, allres[len(keys) :]):
            fields = dict(solver=l["params"]["scf_converger"][0], sp2="sp2" in l["params"], extra_pad=l["extra_pad"], far_padding=l["pad_coord"] != 0.0, path=l.get("path", "scf"), excited="excited_states" in l["params"])
            if not rr.get("ok"):
                rep.violation("batch_job_failed", {"layout": l, "error": rr.get("error")}, **fields)
                continue
            for m, o in rr["result"].items():
                s = solo.get(common.sha([m, l["params"], l.get("path"), l.get("T_el")]))
                if s is None:
                    continue
                n_cmp += 1
                if o["flag"] or s["flag"]:
                    rep.violation("not_converged_in_transparency_job", {"layout": l, "mol": m}, **fields)
                    continue
                if o["pad_force"] != 0.0:
                    rep.violation("padding_atom_has_force", {"layout": l, "mol": m, "value": o["pad_force"]}, **fields)
                names_cmp = ("Etot", "Hf", "force", "q", "gap", "e_mo", "dipole") + (("cis",) if "cis" in o and "cis" in s else ()) + (("kernel", "krylov_error") if "kernel" in o and "kernel" in s else ())
                for name in names_cmp:
                    d = cmp(o[name], s[name], 0)
                    tol = TOL_F if name in ("force", "dipole") else TOL_E
                    worst[name] = max(worst.get(name, 0.0), d / tol if d != float("inf") else 0.0)
                    if d > tol:
                        rep.violation("value_depends_on_batch", {"layout": l, "mol": m, "output": name, "maxdiff": d, "tol": tol}, output=name, **fields)
            if len(samples) < 2:
                samples.append({"layout": l, "Etot": {m: o["Etot"] for m, o in rr["result"].items()}})
        # ---- MD: a molecule's trajectory in a padded batch equals its trajectory alone ---------------------------------------
        mjobs = []
        for mols in (["ch4", "h2o"], ["h2o", "nh3", "h2"]):
            for com in (None, ["angular", 1], ["linear", 2]):
                for extra, padc in ((0, 0.0), (2, 7.5)):
                    mjobs.append(dict(mols=mols, com=com, extra_pad=extra, pad_coord=padc, engine="basic"))
        mjobs.append(dict(mols=["ch4", "h2o"], com=["angular", 2], extra_pad=1, pad_coord=0.0, engine="xl"))
        if tier == "quick":
            mjobs = [j for j in mjobs if j["com"] != ["linear", 2] or j["extra_pad"] == 2]
        solo_md = {}
        for j in mjobs:
            for m in j["mols"]:
                solo_md.setdefault(common.sha([m, j["com"], j["engine"]]), dict(mols=[m], com=j["com"], engine=j["engine"]))
        mkeys = sorted(solo_md)
        alljobs = [solo_md[k] for k in mkeys] + mjobs
        for n, j in enumerate(alljobs):
            j["workdir"] = os.path.join(scratch, "md_%03d" % n)
        mres = common.run_forked(alljobs, batch_driver.run_md, timeout=1800)
        msolo = {k: (rr["result"] if rr.get("ok") else None) for k, rr in zip(mkeys, mres[: len(mkeys)])}
        n_md = 0
        for j, rr in zip(mjobs, mres[len(mkeys):]):
            fields = dict(solver=1, sp2=False, extra_pad=j["extra_pad"], far_padding=j["pad_coord"] != 0.0, path="md", excited=False)
            if not rr.get("ok"):
                rep.violation("batch_job_failed", {"layout": {k: v for k, v in j.items() if k != "workdir"}, "error": rr.get("error")}, **fields)
                continue
            for m, o in rr["result"].items():
                s0 = msolo.get(common.sha([m, j["com"], j["engine"]]))
                if not s0:
                    continue
                n_md += 1
                dx = max(abs(a - b) for a, b in zip(o["x"], s0[m]["x"]))
                worst["md_x"] = max(worst.get("md_x", 0.0), dx / 1e-9)
                if dx > 1e-9 or o["pad_v"] != 0.0:
                    rep.violation("trajectory_depends_on_batch", {"layout": {k: v for k, v in j.items() if k != "workdir"}, "mol": m, "max_position_difference": dx, "padding_velocity": o["pad_v"]}, output="md", **fields)
        # ---- same-element relabelling ----------------------------------------------------------------------------------------------
        rjobs = [dict(mols=m, params=pp, seed=k) for k, m in enumerate((["ch4"], ["h2o", "c2h4"], ["co2", "nh3"], ["nh4+", "h2co"], ["c2h4", "ch4", "h2"]))
                 for pp in (dict(scf_converger=[1], scf_eps=1.0e-10), dict(scf_converger=[2], scf_eps=1.0e-10), dict(scf_converger=[1], scf_eps=1.0e-10, sp2=[True, 1e-7]),
                            dict(scf_converger=[1], scf_eps=1.0e-10, excited_states={"n_states": 2, "method": "cis", "tolerance": 1e-8}))
                 if not ("excited_states" in pp and len(set(m)) > 1 and "h2" in m)]
        if tier == "quick":
            rjobs = rng.sample(rjobs, 8)
        rres = common.run_forked(rjobs, batch_driver.run_relabel, timeout=900)
        n_rel = 0
        for j, rr in zip(rjobs, rres):
            fields = dict(solver=j["params"]["scf_converger"][0], sp2="sp2" in j["params"], extra_pad=0, far_padding=False, path="relabel", excited="excited_states" in j["params"])
            if not rr.get("ok"):
                rep.violation("batch_job_failed", {"layout": j, "error": rr.get("error")}, **fields)
                continue
            o = rr["result"]
            if not o["moved"]:
                rep.machinery("relabel job moved no atom")
            for name, d in o.items():
                if name == "moved":
                    continue
                n_rel += 1
                tol = TOL_F if name in ("force", "dipole") else TOL_E
                worst["relabel_" + name] = max(worst.get("relabel_" + name, 0.0), d / tol)
                if d > tol:
                    rep.violation("value_depends_on_atom_labels", {"job": j, "output": name, "maxdiff": d, "tol": tol}, output=name, **fields)
        cov = {
            "relabel_comparisons": n_rel, "md_trajectory_comparisons": n_md,
            "states": r.distinct + g.distinct,
            "transitions": r.generated + g.generated,
            "traces_validated_against_impl": len(recs),
            "samples": samples or [{"note": "none"}],
            "batches_compared_exactly": len(recs),
            "value_layouts": len(lay),
            "molecule_comparisons": n_cmp,
            "calibration_largest_deviation_over_tolerance": worst,
            "evaluations": len(recs) + len(lay),
            "distinct_nontrivial": len([x for x in recs if len(x["sp"]) > 1 and any(0 in row for row in x["sp"])]) + len(lay),
            "rule": "index maps: every batch exported by TLC (non-trivial = more than one row with padding); values: layouts = composition x row order x extra padding x padding coordinates x solver",
            "exhaustive": False,
            "tolerances": {"energy_like": TOL_E, "force_like": TOL_F},
        }
        return rep.finish(cov, assumptions=["value transparency is a monitored predicate with tolerance max(1e-9,100*eps)-style bounds (scf_eps 1e-10)", "MD trajectory independence of batch mates is covered by C10/C11 molid comparisons with the stub only"])
    finally:
        common.rm(scratch)
