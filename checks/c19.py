"""C19 (partial) - the pair cutoff acts as documented.

Decided: (b) with the default cutoff no pair is dropped at any distance, (c) with a finite cutoff
exactly the pairs beyond it are ignored (and pairs never cross molecules).  TLC evaluates
Batch!CutoffExact / SameMoleculeOnly on the enumerated lattice and on two/three-fragment batches
at separations 8..500; the pair lists (idxi, idxj, mask, pair_molid) of the real Parser are
compared exactly with the specification's, and one level down the number of two-centre
integral rows the real calculation builds equals |Pairs|.
Not decided: additivity of non-interacting fragments (asymptotic numerics)."""

from drivers import batch_driver, mdlib
from harness import common

from . import batchshared as BS

PROP = "C19"


def consumers(rec):
    """Real calculation on a fragment batch: every consumer of the pair list honours the cutoff."""
    import math

    import torch

    mdlib.use_stub(False)
    common.quiet_stdio()
    from seqm.ElectronicStructure import Electronic_Structure
    from seqm.Molecule import Molecule
    from seqm.seqm_functions.constants import Constants

    cut = 1.0e10 if rec["cut2"] == 0 else math.sqrt(rec["cut2"])
    p = mdlib.seqm_params(pair_outer_cutoff=cut, scf_eps=1e-7)
    sp = torch.tensor(rec["sp"], dtype=torch.int64)
    pos = torch.tensor(rec["pos"], dtype=torch.float64)
    mol = Molecule(Constants(), p, pos, sp)
    mol.verbose = False
    es = Electronic_Structure(p)
    es(mol)
    return {"npairs_model": len(rec["idxi"]), "idxi": int(mol.idxi.shape[0]), "w": int(mol.w.shape[0]) if mol.w is not None else -1,
            "rij": int(mol.rij.shape[0]), "finite": bool(torch.isfinite(mol.Etot).all())}


def main(tier):
    rep = common.Reporter(PROP, tier)
    scratch = common.scratch_dir("c19")
    try:
        r = BS.model_check(tier, scratch, invariants=["P_Cutoff"])
        if r.error:
            rep.machinery("TLC Batch: " + r.error[:500])
        elif r.violated:
            rep.violation("model_property_violated", {"violated": r.violated}, model=True)
        recs, table, g, _ = BS.export(tier, scratch)
        bad, errs = BS.index_conformance(recs)
        for e in errs:
            rep.machinery("index conformance: " + str(e))
        pair_keys = {"idxi", "idxj", "mask", "mask_l", "pair_molid"}
        for b in bad:
            if any(m.get("what") in pair_keys for m in b["mismatches"]):
                rep.violation("pair_list_differs_from_spec", b, finite_cutoff=b["batch"]["cut2"] != 0)
        frags = [rec for rec in recs if len(rec["sp"][0]) == 6]
        cres = common.run_forked(frags, consumers)
        for rec, c in zip(frags, cres):
            if not c.get("ok"):
                rep.machinery("fragment run failed: " + str(c.get("error")))
                continue
            o = c["result"]
            if not (o["idxi"] == o["w"] == o["rij"] == o["npairs_model"]) or not o["finite"]:
                rep.violation("consumer_ignores_pair_list", {"batch": {"sp": rec["sp"], "cut2": rec["cut2"], "pos": rec["pos"]}, "observed": o}, finite_cutoff=rec["cut2"] != 0)
        finite = [rec for rec in recs if rec["cut2"] != 0]
        cov = {
            "states": r.distinct + g.distinct,
            "transitions": r.generated + g.generated,
            "traces_validated_against_impl": len(recs),
            "samples": [{"sp": x["sp"], "cut2": x["cut2"], "pos": x["pos"], "idxi": x["idxi"], "idxj": x["idxj"]} for x in frags[:2]] or [{}],
            "batches_compared_exactly": len(recs),
            "fragment_batches_run": len(frags),
            "evaluations": len(recs),
            "distinct_nontrivial": len([x for x in finite if len(x["idxi"]) > 0]),
            "rule": "every batch of the enumerated lattice and the fragment family, exported by TLC; non-trivial = finite cutoff and at least one surviving pair",
            "exhaustive": True,
        }
        return rep.finish(cov, assumptions=["cutoffs never coincide with an occurring distance (the statement leaves the boundary open)", "fragment additivity (asymptotic numerics) is not decided"])
    finally:
        common.rm(scratch)
