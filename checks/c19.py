"""C19 (partial) - the pair cutoff acts as documented.

Decided: (b) with the default cutoff no pair is dropped at any distance, (c) with a finite cutoff
exactly the pairs beyond it are ignored (and pairs never cross molecules).  TLC evaluates
Batch!CutoffExact / SameMoleculeOnly on the enumerated lattice and on two/three-fragment batches
at separations 8..500; the pair lists (idxi, idxj, mask, pair_molid) of the real Parser are
compared exactly with the specification's, and one level down the number of two-centre
integral rows the real calculation builds equals |Pairs|.
(a) additivity is monitored: neutral closed-shell fragments placed 8..500 A apart (pairs, a triple, three
directions, three methods) - interaction energy, force, charge and orbital-energy deviations from the isolated
fragments must decay at least like the leading multipole between consecutive separations."""

import os

from drivers import batch_driver, mdlib
from harness import common

from . import batchshared as BS

PROP = "C19"


def consumers(rec):
    """Real calculation on a fragment batch: every consumer of the pair list honours the cutoff."""
    import math

    import torch

    mdlib.use_stub(False)
    common.quiet_stdio()
    from seqm.ElectronicStructure import Electronic_Structure
    from seqm.Molecule import Molecule
    from seqm.seqm_functions.constants import Constants

    cut = 1.0e10 if rec["cut2"] == 0 else math.sqrt(rec["cut2"])
    p = mdlib.seqm_params(pair_outer_cutoff=cut, scf_eps=1e-7)
    sp = torch.tensor(rec["sp"], dtype=torch.int64)
    pos = torch.tensor(rec["pos"], dtype=torch.float64)
    mol = Molecule(Constants(), p, pos, sp)
    mol.verbose = False
    es = Electronic_Structure(p)
    es(mol)
    # every listed pair still carries its interaction: Klopman-Ohno (ss|ss) = e^2 / sqrt(R^2 + (rho_a + rho_b)^2) with
    # rho_a + rho_b < 4 bohr for H, C, N, O: kernel * R / e^2 lies between R / sqrt(R^2 + 16) and 1 (R in bohr)
    kern = [1.0, 1.0]
    if mol.w is not None and mol.w.shape[0]:
        R = mol.rij.detach()
        ratio = mol.w[:, 0, 0].detach() * R / 27.21
        kern = [float((ratio / (R / torch.sqrt(R * R + 16.0))).min()), float(ratio.max())]
    return {"npairs_model": len(rec["idxi"]), "idxi": int(mol.idxi.shape[0]), "w": int(mol.w.shape[0]) if mol.w is not None else -1,
            "rij": int(mol.rij.shape[0]), "finite": bool(torch.isfinite(mol.Etot).all()), "kernel_ratio": kern}


def md_pairs(case):
    """Finite cutoff during MD: two H2 molecules (one row) approach each other; after the run the pair list the code holds
    must be the one of the current geometry (the specification's rule applied to the final coordinates)."""
    import os

    import torch

    mdlib.use_stub(False)
    common.quiet_stdio()
    from seqm.seqm_functions.constants import Constants
    from seqm.Molecule import Molecule

    cut = case["cutoff"]
    p = mdlib.seqm_params(pair_outer_cutoff=cut, scf_eps=1e-7)
    sp = torch.tensor([[1, 1, 1, 1]])
    x = torch.tensor([[[0.0, 0.0, 0.0], [0.74, 0.0, 0.0], [0.0, case["sep"], 0.3], [0.74, case["sep"], 0.3]]], dtype=torch.float64)
    mol = Molecule(Constants(), p, x, sp)
    mol.verbose = False
    v = torch.zeros_like(x)
    v[0, 2:, 1] = -case["speed"]
    mol.velocities = v
    out = {"molid": [0], "prefix": os.path.join(case["workdir"], "md"), "print every": 0, "checkpoint every": 0, "xyz": 0, "h5": {}}
    os.makedirs(case["workdir"], exist_ok=True)
    md = mdlib.MDmod.Molecular_Dynamics_Basic(seqm_parameters=p, timestep=1.0, Temp=0.0, output=out) if case["engine"] == "basic" else \
        mdlib.MDmod.XL_BOMD(xl_bomd_params={"k": 3}, damp=None, seqm_parameters=p, timestep=1.0, Temp=0.0, output=out)
    first = int(mol.idxi.shape[0]) if torch.is_tensor(getattr(mol, "idxi", None)) else -1
    md.run(mol, steps=case["steps"])
    xf = mol.coordinates.detach()[0]
    want = sorted((i, j) for i in range(4) for j in range(i + 1, 4) if float((xf[i] - xf[j]).norm()) < cut)
    got = sorted(zip([int(a) for a in mol.idxi], [int(b) for b in mol.idxj]))
    d = sorted(float((xf[i] - xf[j]).norm()) for i in range(4) for j in range(i + 1, 4))
    return {"want": want, "got": got, "pairs_at_start": first, "distances": d}


SEPS = (8.0, 12.0, 20.0, 40.0, 80.0, 160.0, 320.0, 500.0)
# Deviation from the isolated fragments at separation R must stay below
#     max( envelope carried over from every smaller separation R1: dev(R1) * (R1/R)^p ,  cap * (8/R)^p )
# p: leading multipole (dipole-dipole R^-3 for energies, forces, induced charges; dipole potential R^-2 for orbital
# energies), minus 0.5 slack in the envelope.  cap: five times the largest deviation seen at 8 A over the fixed fragment
# set on the unchanged tree (a zero crossing of the interaction at a small separation must not tighten the bound).
DECAY = {"dE": (3.0, 3.0e-2), "force": (3.0, 1.4e-1), "q": (3.0, 8.0e-3), "e_occ": (2.0, 5.0e-1)}


def additivity(case):
    """Fragments (as one molecule) at growing separation against the isolated fragments."""
    import torch

    mdlib.use_stub(False)
    common.quiet_stdio()
    from drivers import scf_driver
    from seqm.ElectronicStructure import Electronic_Structure
    from seqm.Molecule import Molecule
    from seqm.seqm_functions.constants import Constants

    def calc(names, offs):
        zs, xs, owner = [], [], []
        for k, (n, o) in enumerate(zip(names, offs)):
            z, c, ch, mu = scf_driver.MOLS[n]
            for i in range(len(z)):
                zs.append(z[i])
                xs.append([c[i][d] + o[d] for d in range(3)])
                owner.append((k, i))
        order = sorted(range(len(zs)), key=lambda i: -zs[i])          # species sorted descending, as the API requires
        sp = torch.tensor([[zs[i] for i in order]])
        xyz = torch.tensor([[xs[i] for i in order]], dtype=torch.float64)
        p = mdlib.seqm_params(method=case["method"], scf_eps=1e-12, scf_converger=[1], pair_outer_cutoff=case.get("cutoff", 1.0e10))
        mol = Molecule(Constants(), p, xyz, sp)
        mol.verbose = False
        es = Electronic_Structure(p)
        es(mol)
        per = {}
        for pos, i in enumerate(order):
            per[owner[i]] = ([float(x) for x in mol.force[0, pos]], float(mol.q[0, pos]))
        nocc = int(mol.nocc[0])
        return {"E": float(mol.Etot[0]), "per": per, "e_occ": sorted(float(x) for x in mol.e_mo[0, :nocc]), "flag": bool(es.notconverged.any())}

    names = case["frags"]
    iso = [calc([n], [(0.0, 0.0, 0.0)]) for n in names]
    u = case["dir"]
    series = []
    for R in SEPS:
        offs = [(0.0, 0.0, 0.0)] + [tuple(R * (k + 1) * u[d] * (1.0 if k % 2 == 0 else -1.0) for d in range(3)) for k in range(len(names) - 1)]
        if len(names) == 3:
            offs[2] = (R * u[1], -R * u[0], R * u[2] * 0.5)          # third fragment off the line
        c = calc(names, offs)
        dF = dq = 0.0
        for k, n in enumerate(names):
            for i in range(len(scf_driver.MOLS[n][0])):
                f, qq = c["per"][(k, i)]
                f0, q0 = iso[k]["per"][(0, i)]
                dF = max(dF, max(abs(a - b) for a, b in zip(f, f0)))
                dq = max(dq, abs(qq - q0))
        eo = sorted(x for it in iso for x in it["e_occ"])
        series.append({"R": R, "dE": abs(c["E"] - sum(it["E"] for it in iso)), "force": dF, "q": dq, "e_occ": max(abs(a - b) for a, b in zip(c["e_occ"], eo)), "flag": c["flag"]})
    return series


def main(tier):
    rep = common.Reporter(PROP, tier)
    scratch = common.scratch_dir("c19")
    try:
        r = BS.model_check(tier, scratch, invariants=["P_Cutoff"])
        if r.error:
            rep.machinery("TLC Batch: " + r.error[:500])
        elif r.violated:
            rep.violation("model_property_violated", {"violated": r.violated}, model=True)
        recs, table, g, _ = BS.export(tier, scratch)
        bad, errs = BS.index_conformance(recs)
        for e in errs:
            rep.machinery("index conformance: " + str(e))
        pair_keys = {"idxi", "idxj", "mask", "mask_l", "pair_molid"}
        for b in bad:
            if any(m.get("what") in pair_keys for m in b["mismatches"]):
                rep.violation("pair_list_differs_from_spec", b, finite_cutoff=b["batch"]["cut2"] != 0)
        frags = [rec for rec in recs if len(rec["sp"][0]) == 6]
        cres = common.run_forked(frags, consumers)
        for rec, c in zip(frags, cres):
            if not c.get("ok"):
                rep.machinery("fragment run failed: " + str(c.get("error")))
                continue
            o = c["result"]
            if not (o["idxi"] == o["w"] == o["rij"] == o["npairs_model"]) or not o["finite"]:
                rep.violation("consumer_ignores_pair_list", {"batch": {"sp": rec["sp"], "cut2": rec["cut2"], "pos": rec["pos"]}, "observed": o}, finite_cutoff=rec["cut2"] != 0)
            elif o["kernel_ratio"][0] < 1.0 or o["kernel_ratio"][1] > 1.0 + 1e-9:
                rep.violation("listed_pair_without_interaction", {"batch": {"sp": rec["sp"], "cut2": rec["cut2"], "pos": rec["pos"]}, "observed": o}, finite_cutoff=rec["cut2"] != 0)
        mdc = [dict(engine=e, cutoff=3.0, sep=3.6, speed=0.25, steps=4, workdir=os.path.join(scratch, "mdp_%s" % e)) for e in ("basic", "xl")]
        mres = common.run_forked(mdc, md_pairs, timeout=900)
        md_info = []
        for c, rr in zip(mdc, mres):
            if not rr.get("ok"):
                rep.machinery("MD pair-list run failed: " + str(rr.get("error")) + str(rr.get("tb"))[-300:])
                continue
            o = rr["result"]
            md_info.append({"engine": c["engine"], "pairs_at_start": o["pairs_at_start"], "pairs_at_end": len(o["got"])})
            if len(o["want"]) == o["pairs_at_start"]:
                rep.machinery("MD pair-list case is vacuous: no pair crossed the cutoff")
            if o["got"] != o["want"]:
                rep.violation("pair_list_not_refreshed_during_md", {"case": {k: v for k, v in c.items() if k != "workdir"}, "observed": o}, finite_cutoff=True, engine=c["engine"])
        # (a) additivity: monitored decay of the fragment interaction (energies, forces, charges, orbital energies)
        dirs = [(0.6, 0.64, 0.48), (1.0, 0.0, 0.0), (0.0, -0.6, 0.8)]
        acases = []
        pairs = [["h2o", "h2co"], ["ch4", "ch4"], ["nh3", "hf"]] if tier == "quick" else [["h2o", "h2co"], ["ch4", "ch4"], ["nh3", "hf"], ["h2o", "h2o"], ["hf", "ch4"], ["co2", "nh3"], ["c2h4", "h2o"], ["h2", "hf"]]
        for fr in pairs:
            for method in (("AM1",) if tier == "quick" else ("AM1", "PM3", "MNDO")):
                for u in (dirs[:1] if tier == "quick" else dirs):
                    acases.append(dict(frags=fr, method=method, dir=u))
        acases.append(dict(frags=["h2o", "hf", "nh3"], method="PM3", dir=dirs[0]))
        acases.append(dict(frags=["h2o", "h2co"], method="AM1", dir=dirs[1], cutoff=1000.0))     # finite cutoff beyond every distance: same answer
        ares = common.run_forked(acases, additivity, timeout=1800)
        worst = {k: 0.0 for k in DECAY}
        worst8 = {k: 0.0 for k in DECAY}
        n_add = 0
        for c, rr in zip(acases, ares):
            if not rr.get("ok"):
                rep.machinery("additivity run failed: " + str(rr.get("error")) + str(rr.get("tb"))[-300:])
                continue
            ser = rr["result"]
            for n, b in enumerate(ser):
                for name, (expo, cap) in DECAY.items():
                    n_add += 1
                    bound = max([cap * (8.0 / b["R"]) ** expo] + [a[name] * (a["R"] / b["R"]) ** (expo - 0.5) for a in ser[:n]])
                    worst[name] = max(worst[name], b[name] / bound)
                    worst8[name] = max(worst8[name], ser[0][name])
                    if b[name] > bound or b["flag"]:
                        rep.violation("fragment_interaction_does_not_decay", {"case": c, "quantity": name, "R": b["R"], "deviation": b[name], "bound": bound, "series": ser},
                                      quantity=name, method=c["method"], nfrag=len(c["frags"]), finite_cutoff="cutoff" in c)
            if ser[0]["dE"] > 0.05 or ser[-1]["dE"] > 1e-6:
                rep.violation("fragment_interaction_too_large", {"case": c, "series": ser}, quantity="dE", method=c["method"], nfrag=len(c["frags"]), finite_cutoff="cutoff" in c)
        finite = [rec for rec in recs if rec["cut2"] != 0]
        cov = {
            "states": r.distinct + g.distinct,
            "transitions": r.generated + g.generated,
            "traces_validated_against_impl": len(recs),
            "samples": [{"sp": x["sp"], "cut2": x["cut2"], "pos": x["pos"], "idxi": x["idxi"], "idxj": x["idxj"]} for x in frags[:2]] or [{}],
            "batches_compared_exactly": len(recs),
            "fragment_batches_run": len(frags), "md_pair_list_runs": md_info, "additivity_series": len(acases), "additivity_comparisons": n_add, "calibration_worst_deviation_over_bound": worst, "calibration_largest_deviation_at_8A": worst8,
            "evaluations": len(recs),
            "distinct_nontrivial": len([x for x in finite if len(x["idxi"]) > 0]),
            "rule": "every batch of the enumerated lattice and the fragment family, exported by TLC; non-trivial = finite cutoff and at least one surviving pair",
            "exhaustive": True,
        }
        return rep.finish(cov, assumptions=["cutoffs never coincide with an occurring distance (the statement leaves the boundary open)", "fragment additivity is a monitored predicate: at every separation 8..500 A the deviation from the isolated fragments must stay below max(envelope of the smaller separations decayed with R^-2.5 / R^-1.5, cap * (8/R)^3 resp. ^2), caps = 5 x the largest deviation at 8 A on the unchanged tree"])
    finally:
        common.rm(scratch)
