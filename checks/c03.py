"""C03 - a converged SCF result is self-consistent; failure is flagged; calls terminate.

1. TLC checks the control model SCF (get_error data flow, active set, frozen rows, caps, SP2
   inner loop, epilogue) exhaustively: MaskTruthful, FlagTruthful, NeverSilent, NoReactivation,
   Frozen, Bounded, liveness Terminates; spec mutants (criterion dropped from the mask, all rows
   rewritten, uncapped SP2) must be refuted.
2. A lattice of real single-point jobs (molecules/batches x solver x SP2 x threshold x start
   density x iteration cap) runs with the SCF hooks on; every scf.begin..scf.end span is
   validated against SCF by TLC (SCFTrace): logged booleans bind the model's choices, the
   model's mask / frozen rows / iteration bound / exit reason / returned flags must match.
3. At API return the driver evaluates the self-consistency predicates (symmetry, trace, charge
   sum, idempotency, commutation, re-diagonalisation, energy functional) for every molecule the
   call reports converged; a call that exceeds the SP2 iteration budget counts as "does not
   return".
"""

import os
import json

from drivers import scf_driver
from harness import common, tlc
from harness.tlc import Raw

from . import repotraces

PROP = "C03"

# bound = C[pred][solver] * eps_eff + FLOOR[pred];  eps_eff = max(scf_eps, effective SP2 tolerance)
# calibrated on the unchanged tree (largest observed ratio is >= 10x below; see evidence "calibration")
C = {
    "tr": {0: 50, 1: 10, 2: 10, 3: 10},
    "qsum": {0: 50, 1: 10, 2: 10, 3: 10},
    "idem": {0: 50, 1: 10, 2: 10, 3: 10},
    "comm": {0: 5.0e4, 1: 2.0e3, 2: 2.0e2, 3: 2.0e3},
    "rediag": {0: 5.0e3, 1: 2.0e2, 2: 50, 3: 2.0e2},
    "efun": {0: 10, 1: 10, 2: 10, 3: 10},
}
FLOOR = {"tr": 1e-9, "qsum": 1e-9, "idem": 1e-9, "comm": 1e-7, "rediag": 1e-8, "efun": 1e-8}
SYM_ABS = 1e-12


def sp2_eff(tol):
    return min(max(tol, 1.0e-7), 1.0e-3)


def job_lattice(tier, rng):
    scf_driver.MOLS["c_atom"] = ([6], [[0, 0, 0]], 0, 1)
    scf_driver.MOLS["o_atom"] = ([8], [[0, 0, 0]], 0, 1)
    scf_driver.MOLS["hh30"] = ([1, 1], [[0, 0, 0], [30.0, 0, 0]], 0, 1)
    scf_driver.MOLS["co"] = ([8, 6], [[0, 0, 0], [1.13, 0.05, 0.02]], 0, 1)       # 8 orbitals like CH4, different heavy/hydrogen split
    scf_driver.MOLS["n2"] = ([7, 7], [[0, 0, 0], [1.10, 0.03, -0.04]], 0, 1)
    mols = [["h2"], ["h2o"], ["oh-"], ["nh4+"], ["ch3"], ["ch2t"], ["h2o", "oh-"], ["ch4", "h2"], ["h2o", "h2", "oh-"], ["nh3", "h2o"], ["c_atom", "ch4"], ["o_atom", "h2o"], ["hh30"], ["ch4", "c2h4", "h2o"],
            ["ch4", "co"], ["co", "ch4"], ["n2", "ch4", "co"]]
    convs = [[0, 0.0], [0, 0.3], [0, 0.7], [1], [2]]
    sp2s = [None, 1e-3, 1e-5, 1e-7]
    epss = [1e-4, 1e-7, 1e-10]
    starts = ["guess", "prev", "perturbed"]
    jobs = []
    for ms in mols:
        uhf = any(m in ("ch3", "ch2t") for m in ms)
        for cv in convs:
            for sp in sp2s:
                if uhf and (sp is not None or cv[0] == 2):
                    continue
                for eps in epss:
                    for st in starts:
                        for cap in (None, 3):
                            if cap is not None and (st != "guess" or eps != 1e-10):
                                continue
                            p = dict(scf_converger=list(cv), sp2=[sp is not None, sp if sp is not None else 1e-5], scf_eps=eps)
                            if uhf:
                                p["UHF"] = True
                            jobs.append(dict(mols=ms, params=p, start=st, cap=cap, pad_coord=0.0))
    # Krylov (KSA) solver: its loop has no convergence-test hook, so these jobs are judged by the predicates at return only
    ksa = []
    for ms in (["h2o"], ["nh3", "h2o"], ["c2h4", "hf"], ["h2o", "oh-"], ["ch4", "co"]):
        for rank in (2, 3):
            for eps in (1e-7, 1e-10):
                ksa.append(dict(mols=ms, params=dict(scf_converger=[3, {"max_rank": rank, "err_threshold": 0.0, "T_el": 1500.0}], sp2=[False, 1e-5], scf_eps=eps), start="guess", cap=None, pad_coord=0.0, no_trace=True))
    # unrestricted padded batches with a radical anion (an occupied spin orbital at positive energy), both row orders
    scf_driver.MOLS["h2o-rad"] = ([8, 1, 1], [[0.00, 0.00, 0.00], [0.96, 0.02, 0.01], [-0.24, 0.93, 0.03]], -1, 2)
    scf_driver.MOLS["nh3q"] = ([7, 1, 1, 1], [[0, 0, 0.12], [0.94, 0.02, -0.27], [-0.47, 0.81, -0.25], [-0.47, -0.81, -0.27]], 0, 1)
    extra = []
    for ms in (["nh3q", "h2o-rad"], ["h2o-rad", "nh3q"], ["ch4", "h2o-rad", "h2"]):
        for cv in ([0, 0.3], [0, 0.0], [1]):
            for eps in (1e-6, 1e-8):
                extra.append(dict(mols=ms, params=dict(scf_converger=list(cv), sp2=[False, 1e-5], scf_eps=eps, UHF=True), start="guess", cap=None, pad_coord=0.0))
    # excited states requested: the SCF threshold asked for is the one that has to be met
    for ms in (["h2o"], ["h2co"], ["h2co", "h2co"]):
        for cv in ([1], [2], [0, 0.3]):
            extra.append(dict(mols=ms, params=dict(scf_converger=list(cv), sp2=[False, 1e-5], scf_eps=1e-10, excited_states={"n_states": 2, "method": "cis"}), start="guess", cap=None, pad_coord=0.0))
    jobs += extra
    if tier == "quick":
        must = [j for j in jobs if (j["mols"] == ["h2o", "oh-"] and j["params"]["sp2"][0] and j["params"]["scf_eps"] == 1e-7 and j["start"] == "guess" and j["cap"] is None and j["params"]["scf_converger"] == [1])]
        must += [j for j in jobs if j["cap"] == 3 and j["mols"] in (["ch4", "h2"], ["h2o"]) and j["params"]["scf_converger"] in ([0, 0.3], [2]) and not j["params"]["sp2"][0]]
        must += [j for j in jobs if j["mols"] in (["c_atom", "ch4"], ["hh30"], ["ch4", "c2h4", "h2o"]) and j["params"]["sp2"] == [True, 1e-5] and j["params"]["scf_eps"] == 1e-7 and j["start"] == "guess" and j["cap"] is None
                 and j["params"]["scf_converger"] in ([1], [2])]
        must += [j for j in jobs if j["mols"] in (["ch4", "co"], ["co", "ch4"], ["n2", "ch4", "co"]) and j["params"]["scf_eps"] == 1e-7 and j["start"] == "guess" and j["cap"] is None
                 and j["params"]["scf_converger"] in ([1], [0, 0.3]) and j["params"]["sp2"] in ([False, 1e-5], [True, 1e-5])]
        # open shell, every solver that supports it, tightest threshold: density criteria must be live
        must += [j for j in jobs if j["mols"] in (["ch3"], ["ch2t"]) and j["params"]["scf_eps"] == 1e-10 and j["start"] in ("guess", "perturbed") and j["cap"] is None and j["params"]["scf_converger"] in ([1], [0, 0.3])]
        must += extra
        rest = [j for j in jobs if j not in must]
        jobs = must + rng.sample(rest, 60) + ksa[::2]
    else:
        jobs = jobs + ksa
    for n, j in enumerate(jobs):
        j["id"] = "j%05d" % n
    return jobs


def validate(traces, scratch):
    path = os.path.join(scratch, "scf_traces.ndjson")
    tlc.write_ndjson(path, [{k: v for k, v in t.items() if k in ("id", "nmol", "cap", "diis", "ev")} for t in traces])
    res = tlc.run(
        "SCFTrace",
        dict(spec="TSpec", constants=dict(Mol=Raw("{}"), MaxIter=0, UseDIIS=False, UseSP2=False, SP2Cap=0, MaskMode="all", WriteMode="active"), constraint="Track", postcondition="Post"),
        workers=1,
        env={"TRACE_FILE": path},
        scratch=scratch,
        timeout=1800,
    )
    out = {}
    for ln in res.stdout.splitlines():
        if ln.startswith('"{'):
            rec = json.loads(json.loads(ln))
            r = rec["r"]
            out[rec["id"]] = {"accepted": r["l"] == rec["n"] and r["why"] == "-", "l": r["l"], "n": rec["n"], "k": r["k"], "why": r["why"]}
    return out, res


def validate_sp2(calls, scratch):
    path = os.path.join(scratch, "sp2_traces.ndjson")
    tlc.write_ndjson(path, calls)
    res = tlc.run("SP2Trace", dict(spec="TSpec", constants=dict(Mat=Raw("{}"), Cap=0, WriteMode="active"), constraint="Track", postcondition="Post"), workers=1, env={"TRACE_FILE": path}, scratch=scratch, timeout=1800)
    out = {}
    for ln in res.stdout.splitlines():
        if ln.startswith('"{'):
            rec = json.loads(json.loads(ln))
            out[rec["id"]] = {"accepted": rec["r"]["l"] == rec["n"], "l": rec["r"]["l"], "n": rec["n"]}
    return out, res


def main(tier):
    rep = common.Reporter(PROP, tier)
    rng = __import__("random").Random(common.seed() + 3)
    scratch = common.scratch_dir("c03")
    states = trans = 0
    try:
        # ---- 1. TLC ---------------------------------------------------------------------
        nm = 2 if tier == "quick" else 3
        inv = ["TypeOK", "MaskTruthful", "FlagTruthful", "NeverSilent", "Bounded"]
        props = ["NoReactivation", "Frozen", "Terminates"]
        tlc_runs = []
        for diis in (False, True):
            for sp2 in (False, True):
                c = dict(Mol=set(range(1, nm + 1)), MaxIter=4 if nm == 2 else 3, UseDIIS=diis, UseSP2=sp2, SP2Cap=3, MaskMode="all", WriteMode="active")
                r = tlc.run("SCF", dict(spec="Spec", constants=c, invariants=inv, properties=props), scratch=scratch, timeout=3000)
                tlc_runs.append({"diis": diis, "sp2": sp2, "distinct": r.distinct, "generated": r.generated, "ok": r.ok})
                states += r.distinct
                trans += r.generated
                if r.error:
                    rep.machinery("TLC SCF: " + r.error[:500])
                elif r.violated:
                    rep.violation("model_property_violated", {"violated": r.violated, "constants": c, "cex": r.counterexample[-2:]}, model=True)
        refuted = {}
        small = dict(Mol={1, 2}, MaxIter=3, UseDIIS=True, UseSP2=True, SP2Cap=2, MaskMode="all", WriteMode="active")
        for name, over, subst in (("drop_el", {"MaskMode": "drop_el"}, None), ("write_all", {"WriteMode": "all"}, None), ("sp2_uncapped", {}, {"SP2Cap": "Unlimited"})):
            c = dict(small)
            c.update(over)
            if subst:
                for k in subst:
                    c.pop(k)
            r = tlc.run("SCF", dict(spec="Spec", constants=c, substitutions=subst, invariants=inv, properties=props), scratch=scratch)
            refuted[name] = r.violated
            if not r.violated:
                rep.machinery(f"vacuity: spec mutant {name} not refuted ({r.error and r.error[:200]})")
        # ---- 2./3. jobs --------------------------------------------------------------------
        jobs = job_lattice(tier, rng)
        results = common.run_forked(jobs, scf_driver.run_job, timeout=900)
        traces = []
        jobby_early = {j["id"]: j for j in jobs}
        calib = {}
        n_flagged = n_conv = 0
        samples = []
        for j, r in zip(jobs, results):
            fields = dict(
                solver=j["params"]["scf_converger"][0],
                sp2=bool(j["params"]["sp2"][0]),
                padded=len({len(scf_driver.MOLS[m][0]) for m in j["mols"]}) > 1,
                anion=any(scf_driver.MOLS[m][2] < 0 for m in j["mols"]),
                uhf=bool(j["params"].get("UHF")),
                cap=j["cap"] is not None,
            )
            if not r.get("ok"):
                rep.machinery(f"job {j['id']} failed: {r.get('error')} {str(r.get('tb'))[-400:]}")
                continue
            o = r["result"]
            for t in ([] if j.get("no_trace") else o["traces"]):
                t["job"] = j["id"]
                traces.append(t)
            if o["outcome"] == "budget":
                rep.violation("call_does_not_return", {"job": j, "error": o["error"]}, **fields)
                continue
            if o["outcome"] == "raised":
                rep.violation("valid_job_raised", {"job": j, "error": o["error"]}, **fields)
                continue
            eps = j["params"]["scf_eps"]
            eff = max(eps, sp2_eff(j["params"]["sp2"][1])) if j["params"]["sp2"][0] else eps
            last = o["traces"][-1] if o["traces"] else None
            if last is None or last.get("truncated"):
                rep.violation("no_complete_scf_span", {"job": j}, **fields)
                continue
            ret = [i + 1 for i, f in enumerate(o["flags"]) if f]
            if ret != last["ev"][-1]["ret"]:
                rep.violation("api_flags_differ_from_solver_mask", {"job": j, "api": ret, "solver": last["ev"][-1]["ret"]}, **fields)
            if j["cap"] is not None and ret and len([e for e in last["ev"] if e["name"] == "iter"]) < j["cap"]:
                rep.violation("gave_up_before_cap", {"job": j, "iterations": len(last["ev"]) - 1}, **fields)
            for m, (flag, pr) in enumerate(zip(o["flags"], o["pred"])):
                if flag:
                    n_flagged += 1
                    continue
                n_conv += 1
                if not pr["finite"]:
                    rep.violation("nonfinite_result_without_flag", {"job": j, "mol": m}, **fields)
                if pr["sym"] > SYM_ABS or pr["pub"] > 0:
                    rep.violation("predicate_failed", {"job": j, "mol": m, "pred": "sym/pub", "values": pr}, pred="sym", **fields)
                for name in C:
                    bound = C[name][fields["solver"]] * eff + FLOOR[name]
                    ratio = (pr[name] - FLOOR[name]) / eff
                    key = f"{name}/solver{fields['solver']}"
                    calib[key] = max(calib.get(key, 0.0), ratio / C[name][fields["solver"]])
                    if pr[name] > bound:
                        rep.violation("predicate_failed", {"job": j, "mol": m, "pred": name, "value": pr[name], "bound": bound, "all": pr}, pred=name, **fields)
            if len(samples) < 2:
                samples.append({"job": j, "flags": o["flags"], "pred": o["pred"][:1], "iterations": len(last["ev"]) - 1})
        # SP2 inner loop: every recorded call (the first sweep of a call rewrites everything: mark it as such)
        sp2calls = []
        for t in traces:
            for n, c in enumerate(t.get("sp2_calls", [])[:40]):
                if c["ev"]:
                    sp2calls.append({"id": f"{t['id']}/sp2#{n}", "n": c["n"], "cap": 500, "ev": c["ev"], "job": t["job"]})
        if tier == "quick" and len(sp2calls) > 1500:
            sp2calls = rng.sample(sp2calls, 1500)
        n_sp2_ok = 0
        if sp2calls:
            r = tlc.run("SP2", dict(spec="Spec", constants=dict(Mat={1, 2, 3}, Cap=4, WriteMode="active"), invariants=["Bounded"], properties=["Frozen", "Shrinks", "Terminates"]), scratch=scratch)
            rm = tlc.run("SP2", dict(spec="Spec", constants=dict(Mat={1, 2}, Cap=3, WriteMode="all"), invariants=["Bounded"], properties=["Frozen", "Shrinks", "Terminates"]), scratch=scratch)
            states += r.distinct
            trans += r.generated
            if not r.ok:
                rep.machinery("TLC SP2: " + str(r.violated or r.error)[:300])
            if not rm.violated:
                rep.machinery("vacuity: SP2 WriteMode=all not refuted")
            sv, sres = validate_sp2([{k: v for k, v in c.items() if k != "job"} for c in sp2calls], scratch)
            if sres.error:
                rep.machinery("SP2Trace: " + sres.error[:500])
            states += sres.distinct
            trans += sres.generated
            byid = {c["id"]: c for c in sp2calls}
            for cid, v in sv.items():
                if v["accepted"]:
                    n_sp2_ok += 1
                else:
                    c = byid[cid]
                    rep.violation("sp2_trace_rejected", {"job": {k: v2 for k, v2 in jobby_early[c["job"]].items()}, "call": cid, "matched": v["l"], "of": v["n"], "next_event_not_explained": c["ev"][v["l"]] if v["l"] < len(c["ev"]) else None},
                                  solver=jobby_early[c["job"]]["params"]["scf_converger"][0], sp2=True)
        repo_info = {"spans": 0}
        if tier == "thorough":
            ev, rc, tail = repotraces.record(["tests/unit/test_batch_single_point.py", "tests/unit/test_smoke_single_point.py", "tests/unit/test_pm6_batch.py", "tests/unit/test_excited_states.py", "tests/unit/test_md_suite.py"], scratch, "scf")
            repo_info["pytest"] = tail
            if rc != 0:
                rep.machinery("repository tests failed with hooks on: " + tail)
            spans = [t for t in repotraces.scf_spans(ev) if not t.get("truncated")]
            for n, t in enumerate(spans):
                t["id"] = "repo#%05d" % n
                t["job"] = "repo-tests"
            repo_info["spans"] = len(spans)
            traces += spans
            jobs.append({"id": "repo-tests", "mols": ["(repository tests)"], "params": {"scf_converger": [1], "sp2": [False, 0], "scf_eps": 0}, "start": "-", "cap": None})
        verdicts, tres = validate(traces, scratch)
        if tres.error:
            rep.machinery("SCFTrace: " + tres.error[:800])
        states += tres.distinct
        trans += tres.generated
        bytrace = {t["id"]: t for t in traces}
        jobby = {j["id"]: j for j in jobs}
        n_acc = 0
        for tid, v in verdicts.items():
            t = bytrace[tid]
            if t.get("truncated"):
                continue  # cut short by the budget: already reported as call_does_not_return
            if v["accepted"]:
                n_acc += 1
            else:
                ev = t["ev"]
                j = jobby[t["job"]]
                rep.violation(
                    "trace_rejected",
                    {"job": j, "trace": tid, "matched": v["l"], "of": v["n"], "model_k": v["k"], "violated": v["why"], "next_event_not_explained": ev[v["l"]] if v["l"] < len(ev) else None},
                    solver=t["solver"],
                    sp2=t["sp2"],
                    violated=v["why"],
                )
        if len(verdicts) != len(traces):
            rep.machinery(f"verdicts for {len(verdicts)} of {len(traces)} traces")
        cov = {
            "states": states,
            "transitions": trans,
            "traces_validated_against_impl": len(verdicts) + len(sp2calls),
            "traces_accepted": n_acc + n_sp2_ok,
            "sp2_calls_validated": len(sp2calls),
            "repository_test_executions": repo_info,
            "samples": samples or [{"note": "none"}],
            "tlc_runs": tlc_runs,
            "spec_mutants_refuted": refuted,
            "jobs": len(jobs),
            "molecules_reported_converged": n_conv,
            "molecules_flagged": n_flagged,
            "calibration_largest_value_over_bound": calib,
            "evaluations": len(jobs),
            "distinct_nontrivial": len({common.sha([j["mols"], j["params"], j["start"], j["cap"]]) for j in jobs if len(j["mols"]) > 1 or j["cap"] or j["start"] != "guess"}),
            "rule": "job lattice molecules/batches x solver x SP2 tolerance x scf_eps x start density x cap; non-trivial = batch, capped or non-default start",
            "exhaustive": tier == "thorough",
            "bounds": {"C": C, "FLOOR": FLOOR},
        }
        return rep.finish(cov, assumptions=["the Fock matrix used in the commutation / re-diagonalisation predicates is the one the code builds from the returned density",
                                            "size of the proportionality constants is calibrated, not derived", "KSA SCF (undocumented scf_converger=[3,...]) not covered"])
    finally:
        common.rm(scratch)
