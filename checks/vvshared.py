"""Shared by C08 and C12: TLC on VVExact, export, exact replay on the real integrators."""
import os

from drivers import vv_driver
from harness import common, tlc

INV = ["Exact", "MomentumConserved", "AngularConserved", "Reversible", "OIdentity", "ODissipates"]
BASE = dict(NP=3, MassSet={1, 2}, K=1, Steps=3, Engine="nve", C1="one", NoiseAmp=0, PatSet={1}, StepOrder="BAFB", Flip=True)
SUB = dict(VelSet="VelSetDef", PosSet="PosSet3", FieldSet="Fields2")


def check(consts, scratch, subs=None):
    c = dict(BASE)
    c.update(consts)
    s = dict(SUB)
    s.update(subs or {})
    return tlc.run("VVMC", dict(spec="Spec", constants=c, substitutions=s, invariants=INV), scratch=scratch)


def export(consts, scratch, tag, subs=None):
    c = dict(BASE)
    c.update(consts)
    c["Flip"] = False
    s = dict(SUB)
    s.update(subs or {})
    out = os.path.join(scratch, f"vv_{tag}.ndjson")
    r = tlc.run("VVMC", dict(spec="Spec", constants=c, substitutions=s, invariants=INV + ["Collect"], postcondition="Export"), workers=1, env={"OUT_FILE": out}, scratch=scratch, cfg_name="VVMC_" + tag)
    if not os.path.exists(out):
        raise RuntimeError("VV export failed: " + (r.error or r.stdout[-1000:]))
    return tlc.read_ndjson(out), r


def replay_all(recs, scratch, tag, engine_cls=None):
    cases = []
    for i, rec in enumerate(recs):
        c = dict(rec)
        c["workdir"] = os.path.join(scratch, f"{tag}_{i:05d}")
        if engine_cls:
            c["engine_cls"] = engine_cls
        cases.append(c)
    res = common.run_forked(cases, vv_driver.replay, timeout=600)
    out = []
    for c, r in zip(cases, res):
        if not r.get("ok"):
            out.append((c, None, [{"what": "replay_failed", "error": r.get("error"), "tb": str(r.get("tb"))[-500:]}]))
        else:
            out.append((c, r["result"], vv_driver.compare(c, r["result"])))
        common.rm(c["workdir"])
    return out
