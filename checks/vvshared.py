"""Shared by C08 and C12: TLC on VVExact, export, exact replay on the real integrators."""
import os

from drivers import vv_driver
from harness import common, tlc

INV = ["Exact", "MomentumConserved", "AngularConserved", "Reversible", "OIdentity", "ODissipates"]
BASE = dict(NP=3, MassSet={1, 2}, K=1, Steps=3, Engine="nve", C1="one", NoiseAmp=0, PatSet={1}, StepOrder="BAFB", Flip=True)
SUB = dict(VelSet="VelSetDef", PosSet="PosSet3", FieldSet="Fields2")


def check(consts, scratch, subs=None):
    c = dict(BASE)
    c.update(consts)
    s = dict(SUB)
    s.update(subs or {})
    return tlc.run("VVMC", dict(spec="Spec", constants=c, substitutions=s, invariants=INV), scratch=scratch)


def export(consts, scratch, tag, subs=None):
    c = dict(BASE)
    c.update(consts)
    c["Flip"] = False
    s = dict(SUB)
    s.update(subs or {})
    out = os.path.join(scratch, f"vv_{tag}.ndjson")
    r = tlc.run("VVMC", dict(spec="Spec", constants=c, substitutions=s, invariants=INV + ["Collect"], postcondition="Export"), workers=1, env={"OUT_FILE": out}, scratch=scratch, cfg_name="VVMC_" + tag)
    if not os.path.exists(out):
        raise RuntimeError("VV export failed: " + (r.error or r.stdout[-1000:]))
    return tlc.read_ndjson(out), r


def replay_all(recs, scratch, tag, engine_cls=None):
    cases = []
    for i, rec in enumerate(recs):
        c = dict(rec)
        c["workdir"] = os.path.join(scratch, f"{tag}_{i:05d}")
        if engine_cls:
            c["engine_cls"] = engine_cls
        cases.append(c)
    res = common.run_forked(cases, vv_driver.replay, timeout=600)
    out = []
    for c, r in zip(cases, res):
        if not r.get("ok"):
            out.append((c, None, [{"what": "replay_failed", "error": r.get("error"), "tb": str(r.get("tb"))[-500:]}]))
        elif c.get("com"):
            out.append((c, r["result"], vv_driver.compare_com(c, r["result"])))
        else:
            out.append((c, r["result"], vv_driver.compare(c, r["result"])))
        common.rm(c["workdir"])
    return out


CADENCES = [dict(data=3, vec=3, print=2, xyz=2), dict(data=2, vec=3, print=0, xyz=3), dict(data=3, vec=2, print=2, xyz=0), dict(data=1, vec=2, print=3, xyz=2)]


def variants(recs, rng, n_each):
    """Run-option variants of exported NVE behaviours: non-nested output cadences, two-row batches with a
    non-identity molid, periodic COM removal on an off-centre geometry."""
    out = []
    pool = [r for r in recs if r["engine"] == "nve"]
    for r in rng.sample(pool, min(n_each, len(pool))):
        out.append(dict(r, cad=rng.choice(CADENCES), variant="cadence"))
    for r in rng.sample(pool, min(n_each, len(pool))):
        mates = [m for m in pool if m is not r and m["np"] == r["np"] and m["k"] == r["k"] and m["g"] == r["g"] and len(m["hist"]) == len(r["hist"])
                 and (m["hist"][0] != r["hist"][0] or m["m"] != r["m"])]
        if not mates:
            continue
        out.append(dict(r, mates=[rng.choice(mates)], molid=rng.choice([[1], [1, 0]]), cad=rng.choice([None, CADENCES[0]]), variant="batch"))
    free = [r for r in pool if not any(r["g"]) and any(any(p) for p in r["hist"][0]["v"])]
    for n, r in enumerate(rng.sample(free, min(n_each, len(free)))):
        c = dict(r, com=[rng.choice(["linear", "angular"]), rng.choice([1, 2])], shift=[3.0, -2.0, 1.0], variant="com")
        if n % 2:
            # a batch: every molecule keeps its own kinetic energy across a removal
            mates = [m for m in free if m is not r and m["np"] == r["np"] and m["k"] == r["k"] and len(m["hist"]) == len(r["hist"]) and m["hist"][0]["v"] != r["hist"][0]["v"]]
            if mates:
                c["mates"] = [rng.choice(mates)]
        out.append(c)
    # the engine object / the molecule object served another run before
    for r in rng.sample(pool, min(n_each, len(pool))):
        out.append(dict(r, warm=rng.choice(["md", "mol"]), variant="reuse"))
    return out
