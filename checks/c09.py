"""C09 (partial) - XL-BOMD propagation: coefficient tables, coefficient<->age alignment at every
buffer phase and restart phase, fixed-point rule; structural/numeric consistency with SCF.

Decided here: (b) stationary auxiliary density at every buffer phase (SumRule/FixedPoint on the
spec's own table + alignment), (c) the executed recurrence is the published one for k = 3..9:
right coefficient on the right history entry at every phase, also after restart.
(a) is monitored on the real code (XL energy/forces with P = converged D vs SCF); the KSA kernel update at P != D must
solve the Newton equation it reports (achieved residual by finite differences of the real D[P] = published Krylov error,
per molecule of a batch, ranks 1..3); at electronic temperatures with fractional occupations the KSA forces are minus the
gradient of the free energy the engine reports (Etot + entropy term), i.e. that potential is the constant of motion.
Not decided: linear stability over the response range, dt^2 scaling, convergence to BO.
"""

import os

import torch

from drivers import mdlib, xl_driver
from harness import common, tlc

PROP = "C09"
KS = (3, 4, 5, 6, 7, 8, 9)


def ksa_kernel(job):
    """KSA kernel update at an auxiliary density P != D: the update u = -dP2dt2 must solve the Newton equation J u = D - P in
    the Krylov space it reports, i.e. the residual achieved (J u by central differences of the real D[P], with the code's
    convention J = 1/2 dD/dP - 1) equals the Krylov error the code publishes, per molecule of a batch."""
    import zlib

    from drivers import scf_driver
    from seqm.ElectronicStructure import Electronic_Structure

    mdlib.use_stub(False)
    common.quiet_stdio()
    names = job["mols"]
    params = mdlib.seqm_params(scf_converger=[1], scf_eps=1e-10)
    mol = scf_driver.make(names, params, displace=0.05)
    mol.verbose = False
    es = Electronic_Structure(params)
    es(mol)
    P0 = mol.dm.clone()
    for k, nm in enumerate(names):
        g = torch.Generator().manual_seed(77 + zlib.crc32(nm.encode()) % 100000)
        n4 = 4 * len(scf_driver.MOLS[nm][0])
        d = 0.01 * (torch.rand((n4, n4), generator=g, dtype=P0.dtype) - 0.5)
        P0[k, :n4, :n4] += (d + d.T) * (P0[k, :n4, :n4] != 0).to(P0.dtype)
    xp = {"k": 5, "max_rank": int(job["rank"]), "err_threshold": 0.0, "T_el": float(job["T_el"])}

    def D(P):
        es(mol, P0=P.clone(), dm_prop="XL-BOMD", xl_bomd_params=xp)
        return mol.dm.detach().clone(), mol.dP2dt2.detach().clone(), mol.Krylov_Error.detach().clone()

    D0, K, err = D(P0)
    u = -K
    eps = 1.0e-4
    Dp, Dm = D(P0 + eps * u)[0], D(P0 - eps * u)[0]
    f = D0 - P0
    Ju = 0.5 * (Dp - Dm) / (2 * eps) - u
    ach = (Ju - f).flatten(1).norm(dim=1) / f.flatten(1).norm(dim=1)
    return {"achieved": [float(x) for x in ach], "reported": [float(x) for x in err], "update_norm": [float(x) for x in u.flatten(1).norm(dim=1)]}


def free_energy_forces(job):
    """KSA branch at an electronic temperature that gives fractional occupations: the forces must be minus the gradient of the
    free energy the engine reports as its potential (Etot + electronic-entropy term), evaluated at the finite-temperature
    self-consistent density (central differences along one direction)."""
    from drivers import scf_driver
    from seqm.ElectronicStructure import Electronic_Structure
    from seqm.Molecule import Molecule
    from seqm.seqm_functions.constants import Constants

    mdlib.use_stub(False)
    common.quiet_stdio()
    Tel, rank, names = float(job["T_el"]), int(job["rank"]), job["mols"]

    def A(shift):
        xp = {"k": 5, "max_rank": rank, "err_threshold": 0.0, "T_el": Tel}
        p = mdlib.seqm_params(scf_converger=[3, {"max_rank": rank, "err_threshold": 0.0, "T_el": Tel}], scf_eps=1e-11)
        sp, xyz, q, mult = scf_driver.build_batch(names, displace=0.05)
        mol = Molecule(Constants(), p, xyz + shift, sp, charges=q, mult=mult)
        mol.verbose = False
        es = Electronic_Structure(p)
        es(mol)
        P = mol.dm.clone()
        es(mol, P0=P, dm_prop="XL-BOMD", xl_bomd_params=xp)
        return (mol.Etot + mol.Electronic_entropy).detach().clone(), mol.force.detach().clone(), mol.Electronic_entropy.detach().clone(), float((mol.dm - P).abs().max())

    sp, xyz, q, mult = scf_driver.build_batch(names, displace=0.05)
    g = torch.Generator().manual_seed(4)
    d = (torch.rand(xyz.shape, generator=g, dtype=torch.float64) - 0.5) * (sp > 0).unsqueeze(-1)
    A0, F0, S0, res = A(0 * d)
    h = 1.0e-4
    Ap, Am = A(h * d)[0], A(-h * d)[0]
    fd = (Ap - Am) / (2 * h)
    an = -(F0 * d).sum(dim=(1, 2))
    return {"entropy_term": [float(x) for x in S0], "self_consistency": res, "fd": [float(x) for x in fd], "minus_F_dot_d": [float(x) for x in an]}


def validate(traces, scratch):
    path = os.path.join(scratch, "xl_traces.ndjson")
    tlc.write_ndjson(path, traces)
    res = tlc.run(
        "XLHistoryTrace",
        dict(spec="TSpec", constants=dict(Orders=set(KS), MaxStepsMul=100, SlotMode="rev", ResumeMode="minus1", MaxCrash=3), constraint="Track", postcondition="Post"),
        workers=1,
        env={"TRACE_FILE": path},
        scratch=scratch,
    )
    import json

    out = {}
    for ln in res.stdout.splitlines():
        if ln.startswith('"{'):
            rec = json.loads(json.loads(ln))
            r = rec["r"]
            out[rec["id"]] = {"accepted": r["l"] == rec["n"] and r["why"] == "-", "l": r["l"], "n": rec["n"], "step": r["step"], "why": r["why"]}
    return out, res


def main(tier):
    rep = common.Reporter(PROP, tier)
    rng = __import__("random").Random(common.seed() + 9)
    scratch = common.scratch_dir("c09")
    states = trans = 0
    try:
        # ---- 1. TLC: model + the two alignment mutants must be refuted -------------------------
        base = dict(Orders=set(KS), MaxStepsMul=3, MaxCrash=2 if tier == "thorough" else 1)
        r = tlc.run("XLHistory", dict(spec="Spec", constants=dict(base, SlotMode="rev", ResumeMode="minus1"), invariants=["Window", "PIsNewest"], properties=["Aligned", "OverwriteOldest"]), scratch=scratch)
        states += r.distinct
        trans += r.generated
        if r.error:
            rep.machinery("TLC XLHistory: " + r.error[:500])
        elif r.violated:
            rep.violation("model_property_violated", {"violated": r.violated, "cex": r.counterexample[-2:]}, model=True)
        sens = {}
        for sm, rm in (("fwd", "minus1"), ("rev", "plain")):
            rs = tlc.run("XLHistory", dict(spec="Spec", constants=dict(base, SlotMode=sm, ResumeMode=rm), invariants=["Window", "PIsNewest"], properties=["Aligned", "OverwriteOldest"]), scratch=scratch)
            sens[f"{sm}/{rm}"] = rs.violated
            if not rs.violated:
                rep.machinery(f"vacuity: spec mutant SlotMode={sm} ResumeMode={rm} not refuted by TLC")
        # ---- 2. tables of real objects --------------------------------------------------------
        for k in KS:
            for eng in ("xl", "ksa"):
                t = xl_driver.table(k, eng)
                if t["problems"] or not t["repeat_ok"] or t["m"] != k + 1:
                    rep.violation("coefficient_table", {"table": t}, k=k, engine=eng)
        # ---- 3. traces of the real history handling --------------------------------------------
        cases = []
        for k in KS:
            m = k + 1
            for eng in ("xl", "ksa"):
                cases.append(dict(id=f"{eng}{k}-free", engine=eng, k=k, system="h2o_h2", molid=[], cad={}, ckpt=0, steps=3 * m + 2, print=0))
                phases = list(range(0, m + 1))
                if tier == "quick":
                    phases = rng.sample(phases, 2 if eng == "xl" else 1)
                for i in phases:  # crash right after the checkpoint of step i+1
                    cases.append(dict(id=f"{eng}{k}-crash{i}", engine=eng, k=k, system="h2", molid=[], cad={}, ckpt=1, steps=i + 1 + m + 1, print=0, crash=i,
                                      kind="hard" if i % 2 else "soft"))

        def go(idx, case):
            return xl_driver.run(case, os.path.join(scratch, "xl_%04d" % idx))

        results = common.run_forked(cases, go, pass_index=True)
        traces = []
        for case, r in zip(cases, results):
            if not r.get("ok") or "error" in r.get("result", {}):
                rep.machinery(f"xl driver failed for {case['id']}: {r.get('error') or r['result'].get('error')}")
                continue
            for p in r["result"]["problems"]:
                rep.violation("weight_not_in_table_units", {"case": case, "problem": p}, k=case["k"], engine=case["engine"])
            traces.append(r["result"]["trace"])
        verdicts, tres = validate(traces, scratch)
        if tres.error:
            rep.machinery("XLHistoryTrace: " + tres.error[:800])
        states += tres.distinct
        trans += tres.generated
        n_acc = 0
        samples = []
        bytrace = {t["id"]: t for t in traces}
        for tid, v in verdicts.items():
            if v["accepted"]:
                n_acc += 1
                if len(samples) < 2:
                    samples.append({"id": tid, "events": bytrace[tid]["ev"][:4]})
            else:
                ev = bytrace[tid]["ev"]
                rep.violation(
                    "trace_rejected",
                    {"trace": tid, "matched": v["l"], "of": v["n"], "model_step": v["step"], "violated": v["why"], "next_event_not_explained": ev[v["l"]] if v["l"] < len(ev) else None},
                    k=bytrace[tid]["k"],
                    ksa=bytrace[tid]["ksa"],
                )
        if len(verdicts) != len(traces):
            rep.machinery(f"verdicts for {len(verdicts)} of {len(traces)} traces")
        # ---- 4. monitored: fixed point on real tensors; XL energy = SCF energy when P = D -------
        mon = {}

        def numeric(_):
            mdlib.use_stub(False)
            out = {}
            p = mdlib.seqm_params(scf_eps=1e-10)
            from seqm.ElectronicStructure import Electronic_Structure

            mol = mdlib.make_molecule("h2o_h2", p)
            es = Electronic_Structure(p)
            common.quiet_stdio()
            es(mol)
            E0, F0, D = mol.Etot.clone(), mol.force.clone(), mol.dm.clone()
            es(mol, P0=D.clone(), dm_prop="XL-BOMD", xl_bomd_params={"k": 5})
            out["xl_dE"] = float((mol.Etot - E0).abs().max())
            out["xl_dF"] = float((mol.force - F0).abs().max())
            es(mol, P0=D.clone(), dm_prop="XL-BOMD", xl_bomd_params={"k": 5, "max_rank": 2, "err_threshold": 0.0, "T_el": 1500})
            out["ksa_dE"] = float((mol.Etot - E0).abs().max())
            out["ksa_dF"] = float((mol.force - F0).abs().max())
            mdlib.use_stub(True)
            fp = 0.0
            for k in KS:
                md, mol2, kw = mdlib.build_md(dict(engine="xl", k=k, system="h2o_h2", cad={}, steps=1), "/nonexistent/md")
                X = D.clone()
                Pt = X.unsqueeze(0).expand((k + 1,) + X.shape).clone()
                mol2.dm = X
                for c in range(k + 1):
                    fp = max(fp, float((md._propagate_P(X, Pt, c, mol2) - X).abs().max()))
            out["fixed_point_dev"] = fp
            return out

        nr = common.run_forked([0], numeric)[0]
        if not nr.get("ok"):
            rep.machinery("numeric monitor failed: " + str(nr.get("error")) + str(nr.get("tb", ""))[-600:])
        else:
            mon = nr["result"]
            if mon["xl_dE"] > 1e-7 or mon["xl_dF"] > 1e-5:
                rep.violation("xl_energy_differs_from_scf_at_P_equals_D", mon, engine="xl")
            if mon["ksa_dE"] > 1e-7 or mon["ksa_dF"] > 1e-5:
                rep.violation("xl_energy_differs_from_scf_at_P_equals_D", mon, engine="ksa")
            if mon["fixed_point_dev"] > 1e-12:
                rep.violation("fixed_point_not_preserved", mon)
        kjobs = [dict(mols=m, rank=r, T_el=t) for m in (["h2o"], ["h2o", "ch4"], ["ch4", "h2o"], ["h2o", "h2o", "nh3"]) for r in (1, 2, 3) for t in ((3000.0,) if tier == "quick" else (1500.0, 3000.0, 8000.0))]
        kres = common.run_forked(kjobs, ksa_kernel, timeout=900)
        kworst = 0.0
        for j, rr in zip(kjobs, kres):
            if not rr.get("ok"):
                rep.machinery("KSA kernel monitor failed: " + str(rr.get("error")) + str(rr.get("tb", ""))[-300:])
                continue
            o = rr["result"]
            for m, (a, b) in enumerate(zip(o["achieved"], o["reported"])):
                dev = abs(a - b) / (1.0e-4 + 1.0e-2 * b)
                kworst = max(kworst, dev)
                if dev > 1.0 or o["update_norm"][m] == 0.0:
                    rep.violation("ksa_kernel_update_does_not_solve_its_newton_equation", {"job": j, "molecule": m, "achieved_residual": a, "reported_krylov_error": b, "update_norm": o["update_norm"][m]},
                                  engine="ksa", rank=j["rank"], batch=len(j["mols"]))
        fjobs = [dict(mols=m, T_el=t, rank=2) for m in (["h2o"], ["nh3", "h2o"]) for t in ((30000.0,) if tier == "quick" else (15000.0, 30000.0, 60000.0))]
        fres = common.run_forked(fjobs, free_energy_forces, timeout=900)
        fworst = 0.0
        smin = 0.0
        for j, rr in zip(fjobs, fres):
            if not rr.get("ok"):
                rep.machinery("free-energy monitor failed: " + str(rr.get("error")) + str(rr.get("tb", ""))[-300:])
                continue
            o = rr["result"]
            smin = min(smin, min(o["entropy_term"]))
            for m, (a, b) in enumerate(zip(o["fd"], o["minus_F_dot_d"])):
                fworst = max(fworst, abs(a - b))
                if abs(a - b) > 1.0e-6:
                    rep.violation("ksa_forces_are_not_the_gradient_of_the_reported_free_energy", {"job": j, "molecule": m, "finite_difference": a, "minus_F_dot_d": b, "entropy_term": o["entropy_term"][m]}, engine="ksa", rank=j["rank"], batch=len(j["mols"]))
        if smin > -0.1:
            rep.machinery("free-energy monitor is vacuous: no fractional occupations")
        mon["free_energy_force_worst_abs_dev"] = fworst
        mon["free_energy_largest_entropy_term"] = smin
        mon["ksa_kernel_jobs"] = len(kjobs)
        mon["ksa_kernel_worst_dev_over_tol"] = kworst
        cov = {
            "states": states,
            "transitions": trans,
            "traces_validated_against_impl": len(verdicts),
            "traces_accepted": n_acc,
            "samples": samples or [{"note": "none"}],
            "orders": list(KS),
            "spec_mutants_refuted": sens,
            "monitored": mon,
            "evaluations": len(cases),
            "distinct_nontrivial": len([c for c in cases if "crash" in c]),
            "rule": "k = 3..9 x {XL_BOMD, KSA_XL_BOMD} x {uninterrupted 3m+2 steps, crash/resume right after the checkpoint of step s}; non-trivial = with a restart",
            "exhaustive": tier == "thorough",
        }
        return rep.finish(cov, assumptions=["history handling observed with a stub electronic structure (distinct densities every step)", "c = 0.95 mixing of the delta term modelled as coded", "KSA kernel monitor uses the code's convention J = 1/2 dD/dP - 1 (observation: the true Jacobian of the spin-summed density is twice that response)",
                                            "linear stability / dt^2 scaling / convergence to BO are not decided (numeric)"])
    finally:
        common.rm(scratch)
