"""C09 (partial) - XL-BOMD propagation: coefficient tables, coefficient<->age alignment at every
buffer phase and restart phase, fixed-point rule; structural/numeric consistency with SCF.

Decided here: (b) stationary auxiliary density at every buffer phase (SumRule/FixedPoint on the
spec's own table + alignment), (c) the executed recurrence is the published one for k = 3..9:
right coefficient on the right history entry at every phase, also after restart.
(a) is monitored on the real code (XL energy/forces with P = converged D vs SCF).
Not decided: linear stability over the response range, dt^2 scaling, convergence to BO.
"""

import os

import torch

from drivers import mdlib, xl_driver
from harness import common, tlc

PROP = "C09"
KS = (3, 4, 5, 6, 7, 8, 9)


def validate(traces, scratch):
    path = os.path.join(scratch, "xl_traces.ndjson")
    tlc.write_ndjson(path, traces)
    res = tlc.run(
        "XLHistoryTrace",
        dict(spec="TSpec", constants=dict(Orders=set(KS), MaxStepsMul=100, SlotMode="rev", ResumeMode="minus1", MaxCrash=3), constraint="Track", postcondition="Post"),
        workers=1,
        env={"TRACE_FILE": path},
        scratch=scratch,
    )
    import json

    out = {}
    for ln in res.stdout.splitlines():
        if ln.startswith('"{'):
            rec = json.loads(json.loads(ln))
            r = rec["r"]
            out[rec["id"]] = {"accepted": r["l"] == rec["n"] and r["why"] == "-", "l": r["l"], "n": rec["n"], "step": r["step"], "why": r["why"]}
    return out, res


def main(tier):
    rep = common.Reporter(PROP, tier)
    rng = __import__("random").Random(common.seed() + 9)
    scratch = common.scratch_dir("c09")
    states = trans = 0
    try:
        # ---- 1. TLC: model + the two alignment mutants must be refuted -------------------------
        base = dict(Orders=set(KS), MaxStepsMul=3, MaxCrash=2 if tier == "thorough" else 1)
        r = tlc.run("XLHistory", dict(spec="Spec", constants=dict(base, SlotMode="rev", ResumeMode="minus1"), invariants=["Window", "PIsNewest"], properties=["Aligned", "OverwriteOldest"]), scratch=scratch)
        states += r.distinct
        trans += r.generated
        if r.error:
            rep.machinery("TLC XLHistory: " + r.error[:500])
        elif r.violated:
            rep.violation("model_property_violated", {"violated": r.violated, "cex": r.counterexample[-2:]}, model=True)
        sens = {}
        for sm, rm in (("fwd", "minus1"), ("rev", "plain")):
            rs = tlc.run("XLHistory", dict(spec="Spec", constants=dict(base, SlotMode=sm, ResumeMode=rm), invariants=["Window", "PIsNewest"], properties=["Aligned", "OverwriteOldest"]), scratch=scratch)
            sens[f"{sm}/{rm}"] = rs.violated
            if not rs.violated:
                rep.machinery(f"vacuity: spec mutant SlotMode={sm} ResumeMode={rm} not refuted by TLC")
        # ---- 2. tables of real objects --------------------------------------------------------
        for k in KS:
            for eng in ("xl", "ksa"):
                t = xl_driver.table(k, eng)
                if t["problems"] or not t["repeat_ok"] or t["m"] != k + 1:
                    rep.violation("coefficient_table", {"table": t}, k=k, engine=eng)
        # ---- 3. traces of the real history handling --------------------------------------------
        cases = []
        for k in KS:
            m = k + 1
            for eng in ("xl", "ksa"):
                cases.append(dict(id=f"{eng}{k}-free", engine=eng, k=k, system="h2o_h2", molid=[], cad={}, ckpt=0, steps=3 * m + 2, print=0))
                phases = list(range(0, m + 1))
                if tier == "quick":
                    phases = rng.sample(phases, 2 if eng == "xl" else 1)
                for i in phases:  # crash right after the checkpoint of step i+1
                    cases.append(dict(id=f"{eng}{k}-crash{i}", engine=eng, k=k, system="h2", molid=[], cad={}, ckpt=1, steps=i + 1 + m + 1, print=0, crash=i,
                                      kind="hard" if i % 2 else "soft"))

        def go(idx, case):
            return xl_driver.run(case, os.path.join(scratch, "xl_%04d" % idx))

        results = common.run_forked(cases, go, pass_index=True)
        traces = []
        for case, r in zip(cases, results):
            if not r.get("ok") or "error" in r.get("result", {}):
                rep.machinery(f"xl driver failed for {case['id']}: {r.get('error') or r['result'].get('error')}")
                continue
            for p in r["result"]["problems"]:
                rep.violation("weight_not_in_table_units", {"case": case, "problem": p}, k=case["k"], engine=case["engine"])
            traces.append(r["result"]["trace"])
        verdicts, tres = validate(traces, scratch)
        if tres.error:
            rep.machinery("XLHistoryTrace: " + tres.error[:800])
        states += tres.distinct
        trans += tres.generated
        n_acc = 0
        samples = []
        bytrace = {t["id"]: t for t in traces}
        for tid, v in verdicts.items():
            if v["accepted"]:
                n_acc += 1
                if len(samples) < 2:
                    samples.append({"id": tid, "events": bytrace[tid]["ev"][:4]})
            else:
                ev = bytrace[tid]["ev"]
                rep.violation(
                    "trace_rejected",
                    {"trace": tid, "matched": v["l"], "of": v["n"], "model_step": v["step"], "violated": v["why"], "next_event_not_explained": ev[v["l"]] if v["l"] < len(ev) else None},
                    k=bytrace[tid]["k"],
                    ksa=bytrace[tid]["ksa"],
                )
        if len(verdicts) != len(traces):
            rep.machinery(f"verdicts for {len(verdicts)} of {len(traces)} traces")
        # ---- 4. monitored: fixed point on real tensors; XL energy = SCF energy when P = D -------
        mon = {}

        def numeric(_):
            mdlib.use_stub(False)
            out = {}
            p = mdlib.seqm_params(scf_eps=1e-10)
            from seqm.ElectronicStructure import Electronic_Structure

            mol = mdlib.make_molecule("h2o_h2", p)
            es = Electronic_Structure(p)
            common.quiet_stdio()
            es(mol)
            E0, F0, D = mol.Etot.clone(), mol.force.clone(), mol.dm.clone()
            es(mol, P0=D.clone(), dm_prop="XL-BOMD", xl_bomd_params={"k": 5})
            out["xl_dE"] = float((mol.Etot - E0).abs().max())
            out["xl_dF"] = float((mol.force - F0).abs().max())
            es(mol, P0=D.clone(), dm_prop="XL-BOMD", xl_bomd_params={"k": 5, "max_rank": 2, "err_threshold": 0.0, "T_el": 1500})
            out["ksa_dE"] = float((mol.Etot - E0).abs().max())
            out["ksa_dF"] = float((mol.force - F0).abs().max())
            mdlib.use_stub(True)
            fp = 0.0
            for k in KS:
                md, mol2, kw = mdlib.build_md(dict(engine="xl", k=k, system="h2o_h2", cad={}, steps=1), "/nonexistent/md")
                X = D.clone()
                Pt = X.unsqueeze(0).expand((k + 1,) + X.shape).clone()
                mol2.dm = X
                for c in range(k + 1):
                    fp = max(fp, float((md._propagate_P(X, Pt, c, mol2) - X).abs().max()))
            out["fixed_point_dev"] = fp
            return out

        nr = common.run_forked([0], numeric)[0]
        if not nr.get("ok"):
            rep.machinery("numeric monitor failed: " + str(nr.get("error")) + str(nr.get("tb", ""))[-600:])
        else:
            mon = nr["result"]
            if mon["xl_dE"] > 1e-7 or mon["xl_dF"] > 1e-5:
                rep.violation("xl_energy_differs_from_scf_at_P_equals_D", mon, engine="xl")
            if mon["ksa_dE"] > 1e-7 or mon["ksa_dF"] > 1e-5:
                rep.violation("xl_energy_differs_from_scf_at_P_equals_D", mon, engine="ksa")
            if mon["fixed_point_dev"] > 1e-12:
                rep.violation("fixed_point_not_preserved", mon)
        cov = {
            "states": states,
            "transitions": trans,
            "traces_validated_against_impl": len(verdicts),
            "traces_accepted": n_acc,
            "samples": samples or [{"note": "none"}],
            "orders": list(KS),
            "spec_mutants_refuted": sens,
            "monitored": mon,
            "evaluations": len(cases),
            "distinct_nontrivial": len([c for c in cases if "crash" in c]),
            "rule": "k = 3..9 x {XL_BOMD, KSA_XL_BOMD} x {uninterrupted 3m+2 steps, crash/resume right after the checkpoint of step s}; non-trivial = with a restart",
            "exhaustive": tier == "thorough",
        }
        return rep.finish(cov, assumptions=["history handling observed with a stub electronic structure (distinct densities every step)", "c = 0.95 mixing of the delta term modelled as coded",
                                            "linear stability / dt^2 scaling / convergence to BO are not decided (numeric)"])
    finally:
        common.rm(scratch)
