"""Shared machinery of the MD run-loop checks (C10, C11): TLC on MDRunMC, export of the
configuration lattice and crash schedules, replay on the real code, trace validation."""

import json
import os
import random

from drivers import mdexec, mdlib
from harness import common, mdtrace, tlc

STREAMS = mdtrace.STREAMS
DESIGN = mdtrace.DESIGN
INVS = [
    "TypeOK",
    "CkptNeverPartial",
    "CkptCovered",
    "H5Equal",
    "XyzExactlyOnce",
    "ExactAtEnd",
    "ScreenExact",
    "CkptCadence",
    "CursorAtCap",
    "CursorConsistent",
    "NoTmpLitterSoft",
    "NoFiller",
]


def lattice_consts(steps, data, coord, vel, force, na=(0,), tdm=(0,), xyz=(0,), ckpt=(0,), prnt=(1,)):
    return dict(
        StepsSet=set(steps),
        DataSet=set(data),
        CoordSet=set(coord),
        VelSet=set(vel),
        ForceSet=set(force),
        NaSet=set(na),
        TdmSet=set(tdm),
        XyzSet=set(xyz),
        CkptSet=set(ckpt),
        PrintSet=set(prnt),
    )


def model_consts(max_crash=0, kinds=("soft", "hard"), crash_pcs=None, flush_rows=2, record=False, **dev):
    c = dict(DESIGN)
    c.update(dev)
    c.update(
        MaxCrash=max_crash,
        CrashKinds=set(kinds),
        CrashPcs=set(crash_pcs if crash_pcs is not None else mdtrace.ALL_PCS),
        FlushRows=flush_rows,
        RecordHist=record,
    )
    return c


def tlc_check(lat, scratch, invariants=INVS, properties=("Finishes",), workers=16, timeout=3000, coverage=False, **mc):
    consts = model_consts(**mc)
    consts.update(lat)
    return tlc.run(
        "MDRunMC",
        dict(spec="Spec", constants=consts, substitutions={"Configs": "LatticeOK"}, invariants=list(invariants), properties=list(properties)),
        workers=workers,
        scratch=scratch,
        timeout=timeout,
        coverage=coverage,
    )


def export_lattice(lat, scratch):
    out = os.path.join(scratch, "lattice.ndjson")
    consts = model_consts()
    consts.update(lat)
    r = tlc.run(
        "MDRunMC",
        dict(init="ExportInit", next_="ExportNext", constants=consts, substitutions={"Configs": "LatticeOK"}, postcondition="ExportLattice"),
        workers=1,
        scratch=scratch,
        env={"OUT_FILE": out},
        cfg_name="MDRunMC_lat",
    )
    if not os.path.exists(out):
        raise RuntimeError("lattice export failed:\n" + r.stdout[-2000:])
    return tlc.read_ndjson(out)


def export_schedules(lat, scratch, max_crash, crash_pcs=mdexec.HOOK_PCS, kinds=("soft", "hard"), timeout=1800):
    out = os.path.join(scratch, "sched.ndjson")
    if os.path.exists(out):
        os.remove(out)
    consts = model_consts(max_crash=max_crash, kinds=kinds, crash_pcs=crash_pcs, record=True)
    consts.update(lat)
    r = tlc.run(
        "MDRunMC",
        dict(
            spec="Spec",
            constants=consts,
            substitutions={"Configs": "LatticeOK"},
            invariants=["Collect"] + INVS,
            postcondition="ExportSchedules",
        ),
        workers=1,
        scratch=scratch,
        env={"OUT_FILE": out},
        timeout=timeout,
        cfg_name="MDRunMC_sched",
    )
    if not r.ok or not os.path.exists(out):
        raise RuntimeError("schedule export failed: %r\n%s" % (r, r.stdout[-2000:]))
    rows = tlc.read_ndjson(out)
    # distinct (cfg, schedule) pairs: hard crashes branch nondeterministically in the model
    seen = {}
    for row in rows:
        key = json.dumps([row["cfg"], row["sched"]], sort_keys=True)
        seen[key] = row
    return [row for row in seen.values() if addressable(row["cfg"], row["sched"])], r


def addressable(cfg, sched):
    """Can every crash of the schedule be armed through a hook?  (mirrors mdexec.crash_plan)"""
    case = {"cad": cfg["cad"], "xyz": cfg["xyz"], "ckpt": cfg["ckpt"]}
    start = 0
    for pc, i, kind in sched:
        if mdexec.crash_plan(pc, i, kind, case, start) is None:
            return False
        ck = cfg["ckpt"]
        if ck <= 0:
            return True  # no resume after this crash
        top = i + 1 if (pc == "next" and (i + 1) % ck == 0) else i
        start = (top // ck) * ck
    return True


def case_from_cfg(cfg, engine="basic", system="h2o_h2", molid=(0,), **extra):
    case = dict(
        engine=engine,
        system=system,
        molid=list(molid),
        steps=int(cfg["steps"]),
        cad={s: int(cfg["cad"].get(s, 0)) for s in STREAMS},
        xyz=int(cfg["xyz"]),
        ckpt=int(cfg["ckpt"]),
        print=int(cfg["print"]),
    )
    case.update(extra)
    if case["cad"].get("tdm", 0) and "params" not in case:
        case["params"] = {"excited_states": {"n_states": 2, "method": "cis"}, "active_state": 1}
    return case


def ref_key(case):
    return json.dumps(
        [case.get("system"), case.get("engine"), case.get("seed", 7), case.get("params", {}), case.get("k", 5), case.get("damp"), case.get("dt", 0.5),
         case.get("temp", 300.0), case.get("reuse_P", True), case.get("remove_com"), bool(case["cad"].get("tdm", 0)), bool(case["cad"].get("na", 0)), bool(case.get("stub", True)), case.get("run_kwargs")],
        sort_keys=True,
    )


def run_all(jobs, root, nproc=16, stub=True):
    """jobs: list of (case, schedule).  Returns list of execute() results (same order)."""
    refs = {}
    for case, _ in jobs:
        k = ref_key(case)
        refs.setdefault(k, dict(case))
        if case["steps"] > refs[k]["steps"]:
            refs[k]["steps"] = case["steps"]
    keys = sorted(refs)
    refdirs = {k: os.path.join(root, "ref_%d" % n) for n, k in enumerate(keys)}

    def do_ref(k):
        mdexec.reference(refs[k], refdirs[k], stub=refs[k].get("stub", stub))
        return True

    rr = common.run_forked(keys, do_ref, nproc=nproc)
    for k, r in zip(keys, rr):
        if not r.get("ok"):
            raise RuntimeError("reference run failed for %s: %s" % (k, r.get("error") or r))

    def do_case(idx, job):
        case, sched = job
        case = dict(case)
        case.setdefault("id", "c%05d" % idx)
        wd = os.path.join(root, "case_%05d" % idx)
        return mdexec.execute(case, sched, wd, refdirs[ref_key(case)], stub=case.get("stub", stub), tol=case.get("tol"))

    return common.run_forked(jobs, do_case, nproc=nproc, pass_index=True, timeout=1800)


def python_level_checks(case, res):
    """Checks that the model does not express (it follows the first molid's files only)."""
    out = []
    obs = res["final_obs"]
    first = str(case["molid"][0])
    if res["final_status"] != "finished":
        return out
    base = obs["mols"][first]
    for m, o in obs["mols"].items():
        h5 = o["h5"]
        if not h5.get("ok"):
            if any(case["cad"].get(s, 0) for s in STREAMS):
                out.append({"kind": "h5_unreadable_at_end", "mol": m, "error": h5.get("error")})
            continue
        for s in STREAMS:
            present = s in h5["shapes"]
            cad = case["cad"].get(s, 0)
            if cad == 0 and present:
                out.append({"kind": "group_present_for_cadence_zero", "mol": m, "stream": s})
            if m != first and base["h5"].get("ok") and h5["rows"].get(s) != base["h5"]["rows"].get(s):
                out.append({"kind": "molid_files_differ", "mol": m, "stream": s, "rows": h5["rows"].get(s), "first": base["h5"]["rows"].get(s)})
        if m != first and o["xyz"] != base["xyz"]:
            out.append({"kind": "molid_xyz_differ", "mol": m, "xyz": o["xyz"], "first": base["xyz"]})
    return out


def classify_fields(case, sched):
    """Fields a known-findings entry may match on."""
    cad = case["cad"]
    vec = sorted(c for c in (cad.get(k, 0) for k in ("coordinates", "velocities", "forces")) if c > 0)
    return {
        "engine": case.get("engine"),
        "crashed": bool(sched),
        "n_crashes": len(sched),
        "xyz_on": case.get("xyz", 0) > 0,
        "vec_gate_conflict": bool(vec) and any(c % vec[0] for c in vec),
        "tdm_gate_conflict": cad.get("tdm", 0) > 0 and cad.get("data", 0) > 0 and cad["tdm"] % cad["data"] != 0,
        "excited": "excited_states" in case.get("params", {}),
    }


def report_results(rep, jobs, results, verdicts, tag):
    """Turn execution results + TLC trace verdicts into violations. Returns (#accepted, samples)."""
    n_acc = 0
    samples = []
    for (case, sched), r in zip(jobs, results):
        fields = classify_fields(case, sched)
        if not r.get("ok"):
            rep.machinery(f"{tag}: case failed to execute: {r.get('error')} {r.get('tb', '')[-500:]}")
            continue
        res = r["result"]
        tid = res["trace"]["id"]
        for p in res["problems"]:
            rep.violation(p["kind"], {"case": case, "schedule": sched, "problem": p}, **fields)
        for p in python_level_checks(case, res):
            rep.violation(p["kind"], {"case": case, "schedule": sched, "problem": p}, **fields)
        v = verdicts.get(tid)
        if v is None:
            rep.machinery(f"{tag}: no TLC verdict for trace {tid}")
            continue
        if v["accepted"]:
            n_acc += 1
            if len(samples) < 3:
                samples.append({"case": case, "schedule": sched, "events": len(res["trace"]["ev"]), "segments": res["segments"]})
        else:
            ev = res["trace"]["ev"]
            nxt = ev[v["l"]] if v["l"] < len(ev) else None
            kind = "property_violated_on_trace" if v["bad"] != "-" else "trace_rejected"
            rep.violation(
                kind,
                {
                    "case": case,
                    "schedule": sched,
                    "matched_events": v["l"],
                    "of": v["n"],
                    "model_pc": v["pc"],
                    "model_i": v["i"],
                    "violated_property": v["bad"],
                    "next_event_not_explained": nxt,
                    "previous_event": ev[v["l"] - 1] if v["l"] > 0 else None,
                    "segments": res["segments"],
                },
                rejected_at=(nxt or {}).get("name"),
                violated=v["bad"],
                **fields,
            )
    return n_acc, samples


def sample(rng, items, n):
    items = list(items)
    if len(items) <= n:
        return items
    return rng.sample(items, n)


def rng():
    return random.Random(common.seed() * 7919 + 13)
