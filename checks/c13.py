"""C13 - initial conditions, centre-of-mass handling and seeding.

TLC checks MDInit (seeding order, RNG stream position, DoF table per engine and COM mode, the three
initial-velocity branches, the COM-removal schedule) over engines x COM modes x velocity sources x
seeds x prior RNG histories: SeedDeterminism, UserVelUntouched, ComSchedule, DofSet; the "seed after
initialize" and "supplied velocities stripped" deviations are refuted as spec mutants.  Every exported
configuration is replayed on the real run loop (stub ES; padded NH3+H2O batch, and a padded H2O+H2 batch for the
diatomic DoF rule 3N-5): n_dof, number of
normal draws, COM calls (iteration, mode) must equal the model's; runs with a seed must be bitwise
identical whatever was drawn before; seeds 1 and 2 must differ; supplied velocities must be the step-0
row bit for bit; padding atoms at rest.  Monitored algebra: T0 = T, P = 0, L = 0 for drawn velocities,
momenta zero / kinetic energy preserved around each COM removal."""

import os

from drivers import init_driver
from harness import common, tlc

PROP = "C13"
INV = ["SeedDeterminism", "UserVelUntouched", "ComSchedule", "DofSet", "DofPositive"]
SYSTEMS = {"nh3_h2o": (4, 3), "h2o_h2": (3, 2)}   # the second one contains a diatomic (linear) molecule
STEPS, STRIDE = 5, 2


def main(tier):
    rep = common.Reporter(PROP, tier)
    scratch = common.scratch_dir("c13")
    try:
        base = dict(Steps=STEPS, Stride=STRIDE, N1=4, N2=3)
        r = tlc.run("MDInit", dict(spec="Spec", constants=dict(base, SeedMode="first", UserVelMode="asis"), invariants=INV), scratch=scratch)
        if r.error:
            rep.machinery("TLC MDInit: " + r.error[:500])
        elif r.violated:
            rep.violation("model_property_violated", {"violated": r.violated}, model=True)
        refuted = {}
        for sm, uv in (("late", "asis"), ("first", "strip")):
            rr = tlc.run("MDInit", dict(spec="Spec", constants=dict(base, SeedMode=sm, UserVelMode=uv), invariants=INV), scratch=scratch)
            refuted[f"{sm}/{uv}"] = rr.violated
            if not rr.violated:
                rep.machinery(f"vacuity: deviation {sm}/{uv} not refuted")
        out = os.path.join(scratch, "mdinit.ndjson")
        g = tlc.run("MDInitGen", dict(spec="Spec", constants=dict(base, SeedMode="first", UserVelMode="asis"), invariants=INV + ["Collect"], postcondition="Export"), workers=1, env={"OUT_FILE": out}, scratch=scratch)
        rows = [dict(row, system="nh3_h2o") for row in tlc.read_ndjson(out)]
        out2 = os.path.join(scratch, "mdinit2.ndjson")
        g2 = tlc.run("MDInitGen", dict(spec="Spec", constants=dict(base, N1=3, N2=2, SeedMode="first", UserVelMode="asis"), invariants=INV + ["Collect"], postcondition="Export"), workers=1, env={"OUT_FILE": out2}, scratch=scratch)
        if g.error or g2.error or g.violated or g2.violated:
            rep.machinery("TLC MDInitGen: " + str(g.error or g2.error or g.violated or g2.violated)[:400])
        # the diatomic system: every configuration with COM removal (where the DoF rule matters) + the seeded ones
        rows += [dict(row, system="h2o_h2") for row in tlc.read_ndjson(out2) if row["cfg"]["com"] != "none" or row["cfg"]["seed"] != "none"]
        cases = [dict(row, steps=STEPS, stride=STRIDE, workdir=os.path.join(scratch, "c%04d" % n)) for n, row in enumerate(rows)]
        res = common.run_forked(cases, init_driver.run_cfg, timeout=600)
        obs = {}
        n_ok = 0
        samples = []
        worst = {"T0": 0.0, "p0": 0.0, "L0": 0.0, "com_p": 0.0, "com_L": 0.0, "com_dEk": 0.0}
        for c, rr in zip(cases, res):
            cfg = c["cfg"]
            fields = dict(engine=cfg["engine"], com=cfg["com"], velsrc=cfg["velsrc"], seed=cfg["seed"], prior=cfg["prior"], system=c["system"])
            if not rr.get("ok"):
                rep.violation("run_failed", {"cfg": cfg, "error": rr.get("error"), "tb": str(rr.get("tb"))[-400:]}, **fields)
                continue
            o = rr["result"]
            obs[common.sha([cfg, c["system"]])] = o
            bad = []
            if o["n_atoms"] != list(SYSTEMS[c["system"]]) or o["n_dof"] != [float(x) for x in c["dof"]]:
                bad.append(("n_dof", o["n_dof"], c["dof"]))
            want_draws = c["draws"] - (cfg["prior"] if c["origin"] == "hist" else 0)
            if o["draws"] != want_draws:
                bad.append(("draws", o["draws"], want_draws))
            loop_calls = [x for x in o["com"] if x["i"] >= 0]
            if [x["i"] for x in loop_calls] != list(c["comlog"]):
                bad.append(("com_schedule", [x["i"] for x in loop_calls], c["comlog"]))
            if any(x["angular"] != (cfg["com"] == "angular") for x in loop_calls):
                bad.append(("com_mode", [x["angular"] for x in loop_calls], cfg["com"]))
            if cfg["velsrc"] == "user" and not o.get("user_bitwise"):
                bad.append(("user_velocities_modified", o.get("user_maxdiff"), 0.0))
            if cfg["velsrc"] == "temp0" and not o["v0_zero"]:
                bad.append(("zero_temperature_velocities_not_zero", None, None))
            if o["pad_vel"] != 0.0:
                bad.append(("padding_atom_moving", o["pad_vel"], 0.0))
            if cfg["velsrc"] == "drawn":
                t = max(abs(x / 300.0 - 1.0) for x in o["T0"])
                worst["T0"] = max(worst["T0"], t)
                worst["p0"] = max(worst["p0"], o["p0_rel"])
                worst["L0"] = max(worst["L0"], o["L0_rel"])
                if t > 1e-10:
                    bad.append(("T0_differs_from_target", o["T0"], 300.0))
                if o["p0_rel"] > 1e-12 or o["L0_rel"] > 1e-10:
                    bad.append(("initial_momentum_not_zero", [o["p0_rel"], o["L0_rel"]], 0.0))
            for x in loop_calls:
                worst["com_p"] = max(worst["com_p"], x["p_rel"])
                worst["com_dEk"] = max(worst["com_dEk"], x["dEk_rel"])
                if x["angular"]:
                    worst["com_L"] = max(worst["com_L"], x["L_rel"])
                if x["p_rel"] > 1e-12 or x["dEk_rel"] > 1e-12 or (x["angular"] and x["L_rel"] > 1e-9):
                    bad.append(("com_removal_algebra", x, None))
            for what, got, want in bad:
                rep.violation("md_prologue_differs_from_model", {"cfg": cfg, "what": what, "observed": got, "expected": want}, what=what, **fields)
            if not bad:
                n_ok += 1
                if len(samples) < 3:
                    samples.append({"cfg": cfg, "n_dof": o["n_dof"], "draws": o["draws"], "com_calls": [x["i"] for x in loop_calls]})
        # relational: seed determinism across prior histories, different seeds differ
        n_rel = 0
        for c in cases:
            cfg = c["cfg"]
            if cfg["prior"] != 0:
                continue
            a = obs.get(common.sha([cfg, c["system"]]))
            b = obs.get(common.sha([dict(cfg, prior=17), c["system"]]))
            if a is None or b is None:
                continue
            # (at Temp = 0 the thermostat noise has zero amplitude: nothing random enters the trajectory)
            uses_rng = cfg["velsrc"] == "drawn" or (cfg["engine"] in ("langevin", "xl_damped") and cfg["velsrc"] != "temp0")
            fields = dict(engine=cfg["engine"], com=cfg["com"], velsrc=cfg["velsrc"], seed=cfg["seed"], system=c["system"])
            if cfg["seed"] != "none" or not uses_rng:
                n_rel += 1
                if a["digest"] != b["digest"]:
                    rep.violation("trajectory_depends_on_prior_rng_history", {"cfg": cfg}, **fields)
            if cfg["seed"] == "s1" and uses_rng:
                o2 = obs.get(common.sha([dict(cfg, seed="s2"), c["system"]]))
                n_rel += 1
                if o2 is not None and o2["digest"] == a["digest"]:
                    rep.violation("different_seeds_give_same_trajectory", {"cfg": cfg}, **fields)
        cov = {
            "states": r.distinct + g.distinct + g2.distinct, "transitions": r.generated + g.generated + g2.generated, "traces_validated_against_impl": len(cases), "configurations_conforming": n_ok,
            "samples": samples or [{"note": "none"}], "deviations_refuted_on_model": refuted, "relational_comparisons": n_rel, "monitored_worst": worst,
            "evaluations": len(cases), "distinct_nontrivial": len([c for c in cases if c["cfg"]["velsrc"] != "temp0" or c["cfg"]["com"] != "none"]),
            "rule": "every configuration engine x COM mode x velocity source x seed x prior history exported by TLC; non-trivial = velocities not all zero or COM removal on", "exhaustive": True,
        }
        return rep.finish(cov, assumptions=["stub electronic structure; padded NH3 + H2O batch and padded H2O + H2 batch (H2: diatomic, DoF 3N-5 with angular COM removal)", "linear molecules with more than two atoms keep the 3N-6 count of the code (its TODO); single atoms not covered"])
    finally:
        common.rm(scratch)
