"""C16 (partial) - CIS/RPA excited states: Davidson bookkeeping and eigenpair predicates.

Decided: per-molecule convergence bookkeeping of the batched Davidson solver (a molecule is finished only when
all its roots passed the residual test, results of finished molecules are frozen, the subspace stays within
its bound, collapse/expansion arithmetic, the iteration cap raises instead of returning), ordering and
positivity of the returned energies, RPA <= CIS; monitored: orthonormality, residual and agreement with a
dense diagonalisation (matrix assembled with the code's own sigma routine), independence of start guess /
amplitude reuse / number of roots / batch composition.  Not decided independently: "eigenpair of the true
response matrix".

TLC checks Davidson (bookkeeping model) incl. liveness; with the coded StagnationExit allowed the model
violates DoneMeansConverged - every recorded solve is validated against the model by TLC (DavidsonTrace)
and a trace that finishes a molecule by stagnation with residual above tolerance is a violation."""

import json
import os

from drivers import dav_driver
from harness import common, tlc
from harness.tlc import Raw

from . import repotraces

PROP = "C16"


def jobs(tier, rng):
    out = []
    for mols in (["h2o"], ["h2co"], ["ch4"], ["nh3"], ["c2h4"], ["h2co", "h2co"], ["ch4", "ch4"]):
        for nr in (1, 2, 3, 5):
            for tol in (1e-5, 1e-7):
                for reuse in (False, True):
                    out.append(dict(mols=mols, nroots=nr, method="cis", tol=tol, reuse=reuse))
    for mols in (["h2o"], ["h2co"], ["nh3"]):
        for nr in (1, 3):
            out.append(dict(mols=mols, nroots=nr, method="rpa", tol=1e-6, reuse=False))
            out.append(dict(mols=mols, nroots=nr, method="cis", tol=1e-6, reuse=False))
    out.append(dict(mols=["h2o"], nroots=8, method="cis", tol=1e-7, reuse=False))          # nroots = nov
    out.append(dict(mols=["h2co", "ch4"], nroots=2, method="cis", tol=1e-6, reuse=False))   # heterogeneous batch (rcis_any_batch)
    for mols in (["h2o", "h2co"], ["nh3", "h2co"]):                                           # small member: few single excitations
        for nr in (2, 3, 6):
            out.append(dict(mols=mols, nroots=nr, method="cis", tol=1e-6, reuse=False))
            for m in mols:
                out.append(dict(mols=[m], nroots=nr, method="cis", tol=1e-6, reuse=False))
    out.append(dict(mols=["h2co"], nroots=3, method="cis", tol=1e-9, reuse=False, max_iter=2))  # cap must raise
    out.append(dict(mols=["h2co"], nroots=2, method="rpa", tol=1e-6, reuse=True))           # amplitude reuse with RPA
    # RPA: amplitude reuse along a displaced geometry, homogeneous batches whose rows converge at different iterations (both orders)
    rp = []
    for mols in (["h2co"], ["h2o"], ["nh3"]):
        for nr in (1, 2, 3):
            rp.append(dict(mols=mols, nroots=nr, method="rpa", tol=1e-6, reuse=True))
    for mols in (["h2co", "h2co_d"], ["h2co_d", "h2co"], ["h2o", "h2o_d"], ["h2o_d", "h2o"]):
        for nr in (1, 2, 3):
            rp.append(dict(mols=mols, nroots=nr, method="rpa", tol=1e-6, reuse=False))
            rp.append(dict(mols=mols, nroots=nr, method="cis", tol=1e-6, reuse=False))
    # small subspace bound (emulated memory limit): the solver has to collapse and restart its subspace
    for mols in (["h2co"], ["h2co", "h2co_d"], ["c2h4"]):
        for cap in (16, 10, 7):
            for nr in (2, 3):
                if 2 * nr < cap:
                    rp.append(dict(mols=mols, nroots=nr, method="cis", tol=1e-7, reuse=False, maxsub=cap))
    # orbital windows (highest n occupied x lowest m virtual orbitals), also on a batch
    for mols in (["h2co"], ["h2co", "h2co_d"], ["h2o"]):
        for win in (((6, 2), (3, 4), (2, 3), (1, 1), (3, 2)) if mols != ["h2o"] else ((4, 1), (2, 2), (1, 2))):
            rp.append(dict(mols=mols, nroots=1 if win[0] * win[1] < 3 else 2, method="cis", tol=1e-7, reuse=False, window=list(win)))
    # a second call on the same molecule object at a geometry where the orbital order changes, against a fresh object
    for mols in (["h2co"], ["h2o"], ["c2h4"], ["nh3"]):
        for nr in (2, 4):
            rp.append(dict(mols=mols, nroots=nr, method="cis", tol=1e-7, reuse=True, second="rotate"))
            rp.append(dict(mols=mols, nroots=nr, method="cis", tol=1e-7, reuse=True))
    special = out[-4:]
    if tier == "quick":
        small = [j for j in out if j["mols"] in (["h2o", "h2co"], ["h2o"], ["h2co"]) and j["nroots"] in (3, 6) and j["tol"] == 1e-6 and j["method"] == "cis" and not j["reuse"]]
        must = special + small
        out = must + rng.sample([j for j in out if j not in must], 30) + rp
    else:
        out += rp
    for n, j in enumerate(out):
        j["id"] = "d%04d" % n
    return out


def main(tier):
    rep = common.Reporter(PROP, tier)
    rng = __import__("random").Random(common.seed() + 16)
    scratch = common.scratch_dir("c16")
    try:
        inv = ["DoneMeansConverged", "SubspaceBound", "CapRaises"]
        props = ["Frozen", "Terminates"]
        base = dict(Mol={1, 2}, NRoots=2, MaxSub=6, MaxIt=3, NStart=3)
        r = tlc.run("Davidson", dict(spec="Spec", constants=dict(base, AllowStagnation=False), invariants=inv, properties=props), scratch=scratch)
        rs = tlc.run("Davidson", dict(spec="Spec", constants=dict(base, AllowStagnation=True), invariants=inv, properties=props), scratch=scratch)
        if not r.ok:
            rep.machinery("TLC Davidson: " + str(r.violated or r.error)[:300])
        if rs.violated != "DoneMeansConverged":
            rep.machinery("vacuity: StagnationExit does not violate DoneMeansConverged on the model")
        js = jobs(tier, rng)
        res = common.run_forked(js, dav_driver.run_job, timeout=1200)
        traces = []
        energies = {}
        n_indep, worst_indep = 0, 0.0
        for j, rr in zip(js, res):
            fields = dict(method=j["method"], reuse=j["reuse"], batch=len(j["mols"]), hetero=len(set(j["mols"])) > 1, capped=bool(j.get("max_iter")))
            if not rr.get("ok"):
                rep.machinery(f"job failed {j}: {rr.get('error')}")
                continue
            o = rr["result"]
            for t in o["traces"]:
                t["job"] = j["id"]
                traces.append(t)
            if j.get("max_iter"):
                if o["outcome"] != "raised":
                    rep.violation("iteration_cap_returned_instead_of_raising", {"job": j, "energies": o.get("energies")}, **fields)
                continue
            if o["outcome"] == "raised":
                rep.violation("solve_raised", {"job": j, "error": o.get("error")}, **fields)
                continue
            tol = j["tol"]
            for m, E in enumerate(o["energies"]):
                if any(b < a - 1e-12 for a, b in zip(E, E[1:])) or any(e <= 0 for e in E):
                    rep.violation("energies_not_ascending_positive", {"job": j, "mol": m, "energies": E}, **fields)
                if not (j.get("window") or j.get("second")):      # windowed / re-oriented jobs answer a different question
                    energies[(tuple(j["mols"]), m, j["method"], j["nroots"], tol, j["reuse"])] = E
            if "gram_dev" in o and o["gram_dev"] > 1e-8:
                rep.violation("amplitudes_not_orthonormal", {"job": j, "gram_dev": o["gram_dev"]}, **fields)
            if "rpa_norm_dev" in o and o["rpa_norm_dev"] > 1e-8:
                rep.violation("amplitudes_not_orthonormal", {"job": j, "rpa_norm_dev": o["rpa_norm_dev"]}, **fields)
            if "residual" in o and o["residual"] > 10 * tol:
                rep.violation("residual_above_tolerance", {"job": j, "residual": o["residual"], "tol": tol}, **fields)
            if "apb_independent_dev" in o:
                n_indep += 1
                worst_indep = max(worst_indep, o["apb_independent_dev"])
                if o["apb_independent_dev"] > 1e-9:
                    rep.violation("response_matrix_differs_from_scf_hamiltonian", {"job": j, "relative_deviation_of_A_plus_B": o["apb_independent_dev"]}, **fields)
            if "window_ref" in o:
                for m, (E, D) in enumerate(zip(o["energies"], o["window_ref"])):
                    if max(abs(a - b) for a, b in zip(E, D)) > 10 * tol:
                        rep.violation("windowed_energies_differ_from_window_block_of_full_matrix", {"job": j, "mol": m, "returned": E, "reference": D}, **fields)
            if "fresh_energies" in o:
                for m, (E, D) in enumerate(zip(o["energies"], o["fresh_energies"])):
                    if max(abs(a - b) for a, b in zip(E, D)) > 20 * tol:
                        rep.violation("result_depends_on_molecule_object_history", {"job": j, "mol": m, "reused_object": E, "fresh_object": D}, **fields)
            if "dense_lowest" in o:
                for m, (E, D) in enumerate(zip(o["energies"], o["dense_lowest"])):
                    d = max(abs(a - b) for a, b in zip(E, D))
                    if d > 10 * tol:
                        rep.violation("not_the_lowest_eigenvalues", {"job": j, "mol": m, "returned": E, "dense": D}, **fields)
        # relational: reuse / nroots prefix / batch vs solo / RPA <= CIS
        n_rel = 0
        for (mols, m, meth, nr, tol, reuse), E in energies.items():
            base_key = (mols, m, meth, nr, tol, False)
            if reuse and base_key in energies:
                pass  # different geometry (displaced before the second call): not comparable
            for nr2 in (1, 2, 3, 5):
                k2 = (mols, m, meth, nr2, tol, reuse)
                if nr2 < nr and k2 in energies and not reuse:
                    n_rel += 1
                    d = max(abs(a - b) for a, b in zip(energies[k2], E[:nr2]))
                    if d > 20 * tol:
                        rep.violation("result_depends_on_number_of_roots", {"mols": mols, "mol": m, "nroots": [nr2, nr], "energies": [energies[k2], E]}, method=meth, reuse=reuse, batch=len(mols), hetero=False, capped=False)
            if len(mols) == 2 and not reuse and (mols[0] != mols[1] or m == 0):
                k1 = ((mols[m],), 0, meth, nr, tol, False)
                if k1 in energies:
                    n_rel += 1
                    d = max(abs(a - b) for a, b in zip(energies[k1], E))
                    if d > 20 * tol:
                        rep.violation("result_depends_on_batch", {"mols": mols, "solo": energies[k1], "batch": E}, method=meth, reuse=reuse, batch=2, hetero=False, capped=False)
            if meth == "rpa":
                kc = (mols, m, "cis", nr, tol, reuse)
                if kc in energies:
                    n_rel += 1
                    if any(a > b + tol for a, b in zip(E, energies[kc])):
                        rep.violation("rpa_above_cis", {"mols": mols, "rpa": E, "cis": energies[kc]}, method="rpa", reuse=reuse, batch=len(mols), hetero=False, capped=False)
        repo_info = {"solves": 0}
        if tier == "thorough":
            ev, rc, tail = repotraces.record(["tests/unit/test_excited_states.py", "tests/unit/test_md_suite.py", "tests/unit/test_force_methods.py"], scratch, "dav")
            repo_info["pytest"] = tail
            if rc != 0:
                rep.machinery("repository tests failed with hooks on: " + tail)
            solves = [t for t in repotraces.dav_solves(ev) if not t.get("truncated")]
            js.append(dict(id="repo-tests", mols=["(repository tests)"], nroots=0, method="cis", tol=0, reuse=False))
            for n, t in enumerate(solves):
                t["id"] = "repo#%05d" % n
                t["job"] = "repo-tests"
            repo_info["solves"] = len(solves)
            traces += solves
        # trace validation
        path = os.path.join(scratch, "dav.ndjson")
        comp = [t for t in traces if not t.get("truncated")]
        tlc.write_ndjson(path, [{k: v for k, v in t.items() if k in ("id", "nmol", "nroots", "maxsub", "maxit", "nstart", "ev")} for t in comp])
        tr = tlc.run("DavidsonTrace", dict(spec="TSpec", constants=dict(Mol=Raw("{}"), NRoots=0, MaxSub=0, MaxIt=0, NStart=0, AllowStagnation=True), constraint="Track", postcondition="Post"),
                     workers=1, env={"TRACE_FILE": path}, scratch=scratch, timeout=1800)
        if tr.error:
            rep.machinery("DavidsonTrace: " + tr.error[:600])
        byid = {t["id"]: t for t in comp}
        jobby = {j["id"]: j for j in js}
        n_acc = 0
        n_stag = 0
        seen = 0
        for ln in tr.stdout.splitlines():
            if ln.startswith('"{'):
                v = json.loads(json.loads(ln))
                seen += 1
                t = byid[v["id"]]
                j = jobby[t["job"]]
                fields = dict(method=j["method"], reuse=j["reuse"], batch=len(j["mols"]), hetero=False, capped=bool(j.get("max_iter")))
                if v["r"]["l"] != v["n"]:
                    ev = t["ev"]
                    rep.violation("trace_rejected", {"job": j, "trace": v["id"], "matched": v["r"]["l"], "of": v["n"], "next_event_not_explained": ev[v["r"]["l"]] if v["r"]["l"] < len(ev) else None,
                                                     "previous": ev[v["r"]["l"] - 1] if v["r"]["l"] else None}, **fields)
                    continue
                n_acc += 1
                if v["r"]["stagn"]:
                    n_stag += 1
                    # a molecule was finished because no correction vector survived: its residual must be below tolerance all the same
                    worst = 0.0
                    prev_done = [False] * t["nmol"]
                    for e in t["ev"]:
                        if e["name"] != "iter":
                            continue
                        for m in range(t["nmol"]):
                            if e["done"][m] and not prev_done[m] and e["nnc"][m] > 0:
                                worst = max(worst, e["maxres"][m])
                        prev_done = e["done"]
                    if worst > t["tol"]:
                        rep.violation("finished_by_stagnation_with_residual_above_tolerance", {"job": j, "trace": v["id"], "residual": worst, "tol": t["tol"]}, **fields)
        if seen != len(comp):
            rep.machinery(f"verdicts for {seen} of {len(comp)} traces")
        cov = {
            "states": r.distinct + tr.distinct, "transitions": r.generated + tr.generated, "traces_validated_against_impl": len(comp), "traces_accepted": n_acc,
            "samples": [{"job": jobby[t["job"]], "events": t["ev"][:2]} for t in comp[:2]] or [{"note": "none"}],
            "stagnation_exits_observed": n_stag, "independent_A_plus_B_comparisons": n_indep, "independent_A_plus_B_worst_relative_deviation": worst_indep, "subspace_collapses_observed": sum(1 for t in comp for e in t["ev"] if e.get("name") == "iter" and any(e.get("collapsed") or [])), "repository_test_executions": repo_info, "relational_comparisons": n_rel, "jobs": len(js),
            "evaluations": len(js), "distinct_nontrivial": len([j for j in js if j["nroots"] > 1 or len(j["mols"]) > 1 or j["reuse"]]),
            "rule": "jobs molecule/batch x number of roots x tolerance x amplitude reuse x CIS/RPA; non-trivial = several roots, a batch or amplitude reuse", "exhaustive": tier == "thorough",
        }
        return rep.finish(cov, assumptions=["dense reference matrices assembled with the code's own sigma routine (nov <= 40); their sum A+B is additionally rebuilt from the SCF Fock builder (independent of the response code), A-B is not", "RPA and heterogeneous-batch solvers have no hooks: API-level predicates only (RPA: residual of both coupled equations, X.X - Y.Y = 1, dense (A-B)(A+B) spectrum)"])
    finally:
        common.rm(scratch)
