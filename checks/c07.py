"""C07 (partial) - differentiable in Hamiltonian parameters: acceptance and reachability.

Decided: (a) caller-supplied differentiable parameters (leaf, non-leaf, callable of the geometry) are accepted;
(b)(d) reverse-mode gradients of Etot/Hf (every backward mode) and of orbital energies, gap, charges
(implicit / unrolled mode) reach the caller's tensor; reachability half of (c): a geometry-dependent
parameter changes the force; (e) every path of a parameter into the Fock step is credited exactly once
(EachPathOnce; the shipped "saved inputs keep their history" implicit backward is refuted as a spec mutant) -
bound to the code by comparing, for every row, the directional derivative of each required output with a central
finite difference, also for batches whose rows converge at different iterations under every solver, and the
unrolled-mode Hessian columns with finite differences of the forces.

TLC checks ParamFlow (the parameter's link to the caller's tensor through call -> merge -> copy ->
integrals -> SCF stage) for every method x parameter name x source x backward mode: Accepted,
ReachesCaller, liveness; the shipped deep copy is refuted as a spec mutant.  Each exported row is replayed
on the real Energy module with a C/N/O/H molecule (every parameter structurally effective): the tensors are
built exactly as named, the gradient of each output w.r.t. the caller's leaf is projected to
{raised, none, zero, nonzero, nonfinite}; rows must not raise and must be 'nonzero' wherever the spec
requires reachability."""

import os

from drivers import param_driver
from harness import common, tlc

PROP = "C07"
FD_TOL = 5.0e-4    # relative (floor 1e-3) deviation of the directional derivative from the central difference; largest observed 4.1e-5


def main(tier):
    rep = common.Reporter(PROP, tier)
    rng = __import__("random").Random(common.seed() + 7)
    scratch = common.scratch_dir("c07")
    try:
        r = tlc.run("ParamFlow", dict(spec="Spec", constants=dict(CopyMode="shallow", HistoryMode="cut"), invariants=["Accepted", "ReachesCaller", "EachPathOnce"], properties=["Finishes"]), scratch=scratch)
        if r.error:
            rep.machinery("TLC ParamFlow: " + r.error[:400])
        elif r.violated:
            rep.violation("model_property_violated", {"violated": r.violated}, model=True)
        rd = tlc.run("ParamFlow", dict(spec="Spec", constants=dict(CopyMode="deep", HistoryMode="cut"), invariants=["Accepted", "ReachesCaller"]), scratch=scratch)
        if not rd.violated:
            rep.machinery("vacuity: CopyMode=deep not refuted")
        rk = tlc.run("ParamFlow", dict(spec="Spec", constants=dict(CopyMode="shallow", HistoryMode="kept"), invariants=["EachPathOnce"]), scratch=scratch)
        if rk.violated != "EachPathOnce":
            rep.machinery("vacuity: HistoryMode=kept not refuted")
        out = os.path.join(scratch, "pf.ndjson")
        g = tlc.run("ParamFlowGen", dict(spec="Spec", constants=dict(CopyMode="shallow", HistoryMode="cut"), invariants=["Collect"], postcondition="Export"), workers=1, env={"OUT_FILE": out}, scratch=scratch)
        rows = tlc.read_ndjson(out)
        if tier == "quick":
            must = [x for x in rows if x["req"]["p"] in ("U_ss", "alpha") and x["req"]["method"] == "AM1"]
            rows = must + rng.sample([x for x in rows if x not in must], 60)
        for x in rows:
            x["fd"] = True
        # batches whose rows converge at different iterations, every solver, implicit and unrolled mode (+ Hessian in unrolled mode)
        extra = []
        for mols in (["ch4", "h2o"], ["h2o", "formamide"], ["formamide"]):
            for conv in ([1], [2], [0, 0.3]):
                for mode in (1, 2):
                    for pn in (("U_ss", "beta_p", "g_sp", "g_pp") if tier == "thorough" else ("U_ss", "g_pp")):
                        extra.append(dict(req=dict(method="AM1", p=pn, src="leaf", mode=mode), required=["Etot", "Hf", "e_mo", "gap", "q"], mols=mols, conv=conv, fd=True, displace=0.12,
                                          hessian=(pn == "U_ss" and mols != ["h2o", "formamide"])))
        if tier == "quick":
            extra = [e for e in extra if e["mols"] != ["formamide"] or e["conv"] != [1]]
        rows = rows + extra
        res = common.run_forked(rows, param_driver.run_row, timeout=1800)
        worst_fd = 0.0
        worst_h = {"asym": 0.0, "fd_dev": 0.0}
        n_fd = 0
        n_ok = 0
        samples = []
        for row, rr in zip(rows, res):
            q = row["req"]
            fields = dict(method=q["method"], p=q["p"], src=q["src"], mode=q["mode"])
            if not rr.get("ok"):
                rep.machinery(f"row failed {q}: {rr.get('error')}")
                continue
            o = rr["result"]
            if o["raised"]:
                rep.violation("differentiable_parameter_rejected", {"request": q, "error": o.get("error")}, **fields)
                continue
            bad = [out_ for out_ in row["required"] if o["proj"].get(out_) != "nonzero"]
            nonfinite = [k for k, v in o["proj"].items() if v == "nonfinite"]
            if bad:
                rep.violation("gradient_does_not_reach_caller", {"request": q, "outputs": bad, "projection": o["proj"]}, output=bad[0], **fields)
            elif nonfinite:
                rep.violation("nonfinite_gradient", {"request": q, "outputs": nonfinite}, output=nonfinite[0], **fields)
            fdbad = []
            for name, (ad, fd) in (o.get("fd") or {}).items():
                if name not in row["required"]:
                    continue
                n_fd += 1
                rel = abs(ad - fd) / (abs(fd) + 1.0e-3)
                worst_fd = max(worst_fd, rel)
                if rel > FD_TOL:
                    fdbad.append({"output": name, "autograd": ad, "finite_difference": fd})
            if fdbad:
                rep.violation("gradient_differs_from_finite_difference", {"request": q, "mols": row.get("mols", ["formamide"]), "solver": row.get("conv", [1]), "mismatch": fdbad},
                              output=fdbad[0]["output"], batch=len(row.get("mols", [1])), solver=str(row.get("conv", [1])), **fields)
            hs = o.get("hessian")
            if hs:
                worst_h = {k: max(worst_h[k], hs[k] / (hs["scale"] + 1e-12)) for k in worst_h}
                if hs["asym"] > 1e-6 * hs["scale"] or hs["fd_dev"] > 2e-4 * hs["scale"]:
                    rep.violation("hessian_differs_from_finite_difference_of_forces", {"request": q, "mols": row.get("mols"), "solver": row.get("conv"), "hessian": hs},
                                  batch=len(row.get("mols", [1])), solver=str(row.get("conv", [1])), **fields)
            if bad or nonfinite or fdbad:
                pass
            else:
                n_ok += 1
                if len(samples) < 3:
                    samples.append({"request": q, "projection": o["proj"]})
        geo = [dict(p=p, method=m) for p, m in (("U_ss", "AM1"), ("zeta_s", "PM3"), ("alpha", "MNDO"), ("beta_p", "AM1"))]
        gres = common.run_forked(geo, param_driver.geometry_dependence, timeout=600)
        gd = {}
        for c, rr in zip(geo, gres):
            if not rr.get("ok"):
                rep.violation("geometry_dependent_parameter_failed", {"case": c, "error": rr.get("error")}, p=c["p"], method=c["method"])
                continue
            gd[c["p"]] = rr["result"]
            if rr["result"] < 1e-6:
                rep.violation("force_ignores_geometry_dependence_of_parameter", {"case": c, "max_force_difference": rr["result"]}, p=c["p"], method=c["method"])
        cov = {
            "states": r.distinct + g.distinct, "transitions": r.generated + g.generated, "traces_validated_against_impl": len(rows), "rows_conforming": n_ok,
            "samples": samples or [{"note": "none"}], "deep_copy_refuted_by": rd.violated, "kept_history_refuted_by": rk.violated, "finite_difference_comparisons": n_fd,
            "calibration_worst_fd_deviation_over_tolerance": worst_fd / FD_TOL, "hessian_worst_relative": worst_h, "force_change_with_geometry_dependent_parameter": gd,
            "evaluations": len(rows), "distinct_nontrivial": len([x for x in rows if x["req"]["src"] != "leaf" or x["req"]["mode"] > 0]),
            "rule": "rows (method x parameter x source x backward mode) exported by TLC; non-trivial = non-leaf/callable source or scf_backward >= 1", "exhaustive": tier == "thorough",
        }
        return rep.finish(cov, assumptions=["test molecule: formamide-like C/N/O/H so that every Gaussian/core parameter is structurally effective", "gradient values: directional derivative along one fixed direction per row against a central difference of converged (eps 1e-11) single points; Hessian: four columns"])
    finally:
        common.rm(scratch)
