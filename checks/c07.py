"""C07 (partial) - differentiable in Hamiltonian parameters: acceptance and reachability.

Decided: (a) caller-supplied differentiable parameters (leaf, non-leaf, callable of the geometry) are accepted;
(b)(d) reverse-mode gradients of Etot/Hf (every backward mode) and of orbital energies, gap, charges
(implicit / unrolled mode) reach the caller's tensor; reachability half of (c): a geometry-dependent
parameter changes the force.  Not decided: gradients equal finite differences, Hessian symmetry.

TLC checks ParamFlow (the parameter's link to the caller's tensor through call -> merge -> copy ->
integrals -> SCF stage) for every method x parameter name x source x backward mode: Accepted,
ReachesCaller, liveness; the shipped deep copy is refuted as a spec mutant.  Each exported row is replayed
on the real Energy module with a C/N/O/H molecule (every parameter structurally effective): the tensors are
built exactly as named, the gradient of each output w.r.t. the caller's leaf is projected to
{raised, none, zero, nonzero, nonfinite}; rows must not raise and must be 'nonzero' wherever the spec
requires reachability."""

import os

from drivers import param_driver
from harness import common, tlc

PROP = "C07"


def main(tier):
    rep = common.Reporter(PROP, tier)
    rng = __import__("random").Random(common.seed() + 7)
    scratch = common.scratch_dir("c07")
    try:
        r = tlc.run("ParamFlow", dict(spec="Spec", constants=dict(CopyMode="shallow"), invariants=["Accepted", "ReachesCaller"], properties=["Finishes"]), scratch=scratch)
        if r.error:
            rep.machinery("TLC ParamFlow: " + r.error[:400])
        elif r.violated:
            rep.violation("model_property_violated", {"violated": r.violated}, model=True)
        rd = tlc.run("ParamFlow", dict(spec="Spec", constants=dict(CopyMode="deep"), invariants=["Accepted", "ReachesCaller"]), scratch=scratch)
        if not rd.violated:
            rep.machinery("vacuity: CopyMode=deep not refuted")
        out = os.path.join(scratch, "pf.ndjson")
        g = tlc.run("ParamFlowGen", dict(spec="Spec", constants=dict(CopyMode="shallow"), invariants=["Collect"], postcondition="Export"), workers=1, env={"OUT_FILE": out}, scratch=scratch)
        rows = tlc.read_ndjson(out)
        if tier == "quick":
            must = [x for x in rows if x["req"]["p"] in ("U_ss", "alpha") and x["req"]["method"] == "AM1"]
            rows = must + rng.sample([x for x in rows if x not in must], 60)
        res = common.run_forked(rows, param_driver.run_row, timeout=1200)
        n_ok = 0
        samples = []
        for row, rr in zip(rows, res):
            q = row["req"]
            fields = dict(method=q["method"], p=q["p"], src=q["src"], mode=q["mode"])
            if not rr.get("ok"):
                rep.machinery(f"row failed {q}: {rr.get('error')}")
                continue
            o = rr["result"]
            if o["raised"]:
                rep.violation("differentiable_parameter_rejected", {"request": q, "error": o.get("error")}, **fields)
                continue
            bad = [out_ for out_ in row["required"] if o["proj"].get(out_) != "nonzero"]
            nonfinite = [k for k, v in o["proj"].items() if v == "nonfinite"]
            if bad:
                rep.violation("gradient_does_not_reach_caller", {"request": q, "outputs": bad, "projection": o["proj"]}, output=bad[0], **fields)
            elif nonfinite:
                rep.violation("nonfinite_gradient", {"request": q, "outputs": nonfinite}, output=nonfinite[0], **fields)
            else:
                n_ok += 1
                if len(samples) < 3:
                    samples.append({"request": q, "projection": o["proj"]})
        geo = [dict(p=p, method=m) for p, m in (("U_ss", "AM1"), ("zeta_s", "PM3"), ("alpha", "MNDO"), ("beta_p", "AM1"))]
        gres = common.run_forked(geo, param_driver.geometry_dependence, timeout=600)
        gd = {}
        for c, rr in zip(geo, gres):
            if not rr.get("ok"):
                rep.violation("geometry_dependent_parameter_failed", {"case": c, "error": rr.get("error")}, p=c["p"], method=c["method"])
                continue
            gd[c["p"]] = rr["result"]
            if rr["result"] < 1e-6:
                rep.violation("force_ignores_geometry_dependence_of_parameter", {"case": c, "max_force_difference": rr["result"]}, p=c["p"], method=c["method"])
        cov = {
            "states": r.distinct + g.distinct, "transitions": r.generated + g.generated, "traces_validated_against_impl": len(rows), "rows_conforming": n_ok,
            "samples": samples or [{"note": "none"}], "deep_copy_refuted_by": rd.violated, "force_change_with_geometry_dependent_parameter": gd,
            "evaluations": len(rows), "distinct_nontrivial": len([x for x in rows if x["req"]["src"] != "leaf" or x["req"]["mode"] > 0]),
            "rule": "rows (method x parameter x source x backward mode) exported by TLC; non-trivial = non-leaf/callable source or scf_backward >= 1", "exhaustive": tier == "thorough",
        }
        return rep.finish(cov, assumptions=["test molecule: formamide-like C/N/O/H so that every Gaussian/core parameter is structurally effective", "not decided: gradient values (finite differences), Hessian symmetry"])
    finally:
        common.rm(scratch)
