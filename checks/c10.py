"""C10 - a run killed at any instant and resumed equals the uninterrupted run.

1. TLC checks MDRun exhaustively (design constants) over a lattice of cadences x run lengths
   x checkpoint cadences with up to 2 (quick) / 3 (thorough) crashes of both kinds (exception
   / kill -9) at every program point: CkptNeverPartial, CkptCovered, H5Equal,
   XyzExactlyOnce, ExactAtEnd, liveness Finishes.
2. Spec -> code: the crash schedules TLC explored (hook-addressable program points) are
   exported and replayed on the real run loop: forked children with the crash plan armed,
   resumed through the real run_from_checkpoint, as often as the schedule says.
3. Code -> spec: every recorded hook trace, with the driver's projection of the files on
   disk after each crash and at the end (rows valued against an uninterrupted reference
   run, bitwise), is validated against MDRun by TLC (MDRunTrace); all invariants are
   evaluated on every step of every observed execution.
4. Tier B: the same with the real electronic structure for every engine (see c10_real).
5. Syscall-level kills (strace fault injection) during flush and checkpoint write.
"""

import os

from drivers import audit_driver, mdexec, strace_kill
from harness import common, mdtrace, tlc

from . import mdshared as S
from . import repotraces

PROP = "C10"


def lattices(tier):
    if tier == "quick":
        tl = S.lattice_consts(steps=(3, 5), data=(0, 1, 2), coord=(0, 1, 3), vel=(0, 2), force=(0,), xyz=(0, 1, 2), ckpt=(0, 1, 2, 3), prnt=(1,))
        tl_tdm = S.lattice_consts(steps=(6,), data=(1, 2, 3), coord=(0,), vel=(0,), force=(0,), tdm=(1, 2, 3), xyz=(0, 2), ckpt=(2, 3), prnt=(1,))
        ex = S.lattice_consts(steps=(5,), data=(1, 2), coord=(0, 3), vel=(0,), force=(0,), xyz=(0, 1, 2), ckpt=(2, 3), prnt=(1,))
        ex_tdm = S.lattice_consts(steps=(6,), data=(2, 3), coord=(0,), vel=(0,), force=(0,), tdm=(2, 3), xyz=(0,), ckpt=(2, 4), prnt=(1,))
    else:
        tl = S.lattice_consts(steps=(1, 3, 5, 6), data=(0, 1, 2, 3), coord=(0, 1, 2, 3), vel=(0, 2, 3), force=(0, 3), xyz=(0, 1, 2, 3), ckpt=(0, 1, 2, 3, 4), prnt=(1,))
        tl_tdm = S.lattice_consts(steps=(4, 6, 7), data=(1, 2, 3), coord=(0, 2), vel=(0,), force=(0,), tdm=(1, 2, 3, 4), xyz=(0, 2), ckpt=(1, 2, 3), prnt=(1,))
        ex = S.lattice_consts(steps=(4, 6), data=(0, 1, 2), coord=(0, 2, 3), vel=(0, 3), force=(0,), xyz=(0, 1, 2), ckpt=(1, 2, 3), prnt=(1,))
        ex_tdm = S.lattice_consts(steps=(6, 7), data=(1, 2, 3), coord=(0,), vel=(0,), force=(0,), tdm=(2, 3, 4), xyz=(0,), ckpt=(2, 3), prnt=(1,))
    return tl, tl_tdm, ex, ex_tdm


VARIANTS = [
    dict(engine="basic", system="h2o_h2", molid=[0, 1]),
    dict(engine="langevin", system="h2o_h2", molid=[0, 1]),
    dict(engine="xl", system="h2o_h2", molid=[0], k=3),
    dict(engine="basic", system="three", molid=[1, 2], reuse_P=False),
    dict(engine="xl", system="h2o_h2", molid=[0, 1], k=6, damp=25.0),
    dict(engine="ksa", system="h2o_h2", molid=[1], k=4),
    dict(engine="langevin", system="three", molid=[0, 2], remove_com=["angular", 2]),
    dict(engine="xl", system="h2o_h2", molid=[0], k=9),
    dict(engine="basic", system="h2o_h2", molid=[0], remove_com=["linear", 1]),
    dict(engine="basic", system="h2o_h2", molid=[0, 1], run_kwargs={"scale_vel": [2, 250.0]}),
    dict(engine="langevin", system="h2o_h2", molid=[1], run_kwargs={"control_energy_shift": True}),
]


EXC = {"excited_states": {"n_states": 3, "method": "cis"}, "active_state": 1, "scf_eps": 1.0e-9}
FSSH = {"excited_states": {"n_states": 2, "method": "cis"}, "scf_eps": 1.0e-9}
TOL = 1.0e-6  # real-ES tier: resumed electronic state goes through a different instruction stream


def real_jobs(tier):
    """Tier B: real electronic structure, every engine, a few distinct crash points each."""
    cad = dict(data=1, coordinates=1, velocities=2, forces=3, na=0, tdm=0)
    base = dict(cad=cad, xyz=1, ckpt=2, print=1, steps=5, stub=False, tol=TOL, params={"scf_eps": 1.0e-9})
    jobs = []

    def add(sched, **kw):
        c = dict(base)
        c.update(kw)
        c["cad"] = dict(kw.get("cad", cad))
        jobs.append((c, sched))

    add([["next", 1, "soft"]], engine="basic", system="h2o_h2", molid=[0, 1])
    add([["scr", 2, "hard"]], engine="basic", system="h2", molid=[0], reuse_P=False)
    add([["tmp", 3, "hard"]], engine="langevin", system="h2o_h2", molid=[0, 1])
    add([["xyz", 2, "soft"], ["scr", 4, "hard"]], engine="langevin", system="h2", molid=[0], damp=5.0)
    ks = (3, 6) if tier == "quick" else (3, 4, 5, 6, 7, 8, 9)
    for k in ks:
        # crash at different buffer phases of the XL history (m = k + 1)
        for ck in ((2,) if tier == "quick" else (1, 2, 3)):
            add([["next", ck - 1, "hard"]], engine="xl", system="h2", molid=[0], k=k, ckpt=ck, steps=ck + 3)
    # (Krylov rank 2: no H2 row here - H2 has a single occupied x virtual pair, a rank-2 kernel is singular for it)
    add([["next", 2, "soft"]], engine="ksa", system="nh3_h2o", molid=[0, 1], ckpt=3, steps=6)
    add([["scr", 3, "hard"]], engine="xl", system="h2o", molid=[0], k=5, damp=20.0)
    exc_cad = dict(cad, tdm=2, data=1)
    add([["next", 1, "soft"]], engine="basic", system="h2co", molid=[0], params=EXC, cad=exc_cad, steps=4)
    add([["next", 1, "hard"]], engine="xl", system="h2co", molid=[0], params=EXC, k=4, steps=4)
    fcad = dict(cad, na=1)
    add([["next", 1, "soft"]], engine="fssh", system="h2co_2", molid=[0, 1], params=FSSH, cad=fcad, steps=4, xyz=0)
    # nonadiabatic cadence that does not divide the checkpoint step; XYZ frames between checkpoints
    add([["next", 2, "soft"]], engine="fssh", system="h2co", molid=[0], params=FSSH, cad=dict(cad, na=3), steps=6, xyz=1)
    if tier != "quick":
        add([["scr", 2, "hard"]], engine="fssh", system="h2co", molid=[0], params=FSSH, cad=fcad, steps=4, damp=30.0)
        add([["next", 1, "soft"], ["next", 3, "hard"]], engine="basic", system="h2co", molid=[0], params=EXC, cad=exc_cad, steps=6)
        add([["data2", 2, "soft"]], engine="ksa", system="h2o", molid=[0], k=3, ckpt=1, steps=4)
    for n, (c, _) in enumerate(jobs):
        c["id"] = "r%04d" % n
    return jobs


def syscall_kills(rep, tier, rng, scratch):
    """SIGKILL at the N-th write/pwrite64/rename touching the HDF5 / XYZ / temp / checkpoint files."""
    info = {"available": strace_kill.available(), "points": 0, "runs": 0, "accepted": 0, "killed_before_run_loop": 0}
    if not info["available"]:
        return info, [], {}, []
    cad = lambda **k: dict({s: 0 for s in S.STREAMS}, **k)  # noqa: E731
    cases = [dict(engine="basic", system="h2o_h2", molid=[0], steps=5, cad=cad(data=1, coordinates=2), xyz=1, ckpt=2, print=1, stub=True)]
    if tier == "thorough":
        cases += [dict(engine="langevin", system="h2o_h2", molid=[0, 1], steps=6, cad=cad(data=2, velocities=1, forces=3), xyz=2, ckpt=3, print=1, stub=True),
                  dict(engine="xl", k=4, system="h2o_h2", molid=[1], steps=5, cad=cad(coordinates=1), xyz=0, ckpt=1, print=0, stub=True)]
    jobs = []
    for n, case in enumerate(cases):
        root = os.path.join(scratch, f"sk{n}")
        pts = strace_kill.dry_run(dict(case, id="dry"), os.path.join(root, "dry"))
        info["points"] += len(pts)
        mdexec.reference(case, os.path.join(root, "ref"))
        if tier == "quick":
            keep = [p for p in pts if p[2] != ".h5"] + rng.sample([p for p in pts if p[2] == ".h5"], min(14, len([p for p in pts if p[2] == ".h5"])))
        else:
            keep = pts
        for m, (sc, when, kind) in enumerate(keep):
            jobs.append(dict(case=dict(case, id=f"sk{n}_{m:04d}"), wd=os.path.join(root, f"k{m:04d}"), syscall=sc, when=when, refdir=os.path.join(root, "ref"), kind=kind))
    res = common.run_forked(jobs, strace_kill.kill_run, timeout=1800)
    traces, byid, out_jobs = [], {}, []
    for j, r in zip(jobs, res):
        if not r.get("ok"):
            rep.machinery(f"syscall kill run failed: {r.get('error')} {str(r.get('tb'))[-300:]}")
            continue
        o = r["result"]
        info["runs"] += 1
        fields = dict(S.classify_fields(j["case"], [["syscall", 0, "hard"]]), syscall=j["syscall"], file=j["kind"])
        for pr in o["problems"]:
            rep.violation(pr["kind"], {"case": j["case"], "kill_at": [j["syscall"], j["when"], j["kind"]], "problem": pr}, **fields)
        if not any(e["name"] == "init" for e in o["trace"]["ev"]):
            info["killed_before_run_loop"] += 1
            if o["final_obs"]["ckpt"]["done"] >= 0:
                rep.violation("checkpoint_without_run", {"case": j["case"], "kill_at": [j["syscall"], j["when"]]}, **fields)
            continue
        traces.append(o["trace"])
        byid[o["trace"]["id"]] = (j, o)
        out_jobs.append(j)
    return info, traces, byid, out_jobs


def main(tier):
    rep = common.Reporter(PROP, tier)
    rng = S.rng()
    scratch = common.scratch_dir("c10")
    states = trans = 0
    try:
        tl, tl_tdm, ex, ex_tdm = lattices(tier)
        maxc = 2 if tier == "quick" else 3
        # ---- 1. TLC exhaustive --------------------------------------------------------
        tlc_summary = []
        for name, lat, mc in (("lattice", tl, maxc), ("tdm-lattice", tl_tdm, 2)):
            r = S.tlc_check(lat, scratch, max_crash=mc, properties=("Finishes",), timeout=5400)
            tlc_summary.append({"run": f"{name}/maxcrash={mc}", "generated": r.generated, "distinct": r.distinct, "depth": r.depth, "wall_s": round(r.wall, 1), "ok": r.ok})
            states += r.distinct
            trans += r.generated
            if r.error:
                rep.machinery(f"TLC {name}: {r.error[:800]}")
            elif r.violated:
                rep.violation("model_property_violated", {"run": name, "violated": r.violated, "counterexample": r.counterexample[-3:]}, model=True, violated=r.violated)
        # ---- 1b. root module: engine state (XL history buffer, RNG stream) derived through crash/resume ----
        rootc = S.model_consts(max_crash=2 if tier == "quick" else 3, crash_pcs={"scr", "tmp", "tmp2", "replace", "next", "step", "vec"}, flush_rows=100)
        root_runs = []
        for kk in ((3, 6) if tier == "quick" else (3, 4, 5, 6, 7, 8, 9)):
            for damped in (False, True):
                c = dict(rootc, K=kk, Damped=damped, XSlotMode="rev", XResumeMode="minus1", RngMode="restore", StepsSet={kk + 3}, CkptSet={1, 2, 3, kk + 1})
                rr = tlc.run("PyseqmMC", dict(spec="PSpec", constants=c, substitutions={"Configs": "Lat"}, invariants=["EngineStateExact", "CkptCovered", "H5Equal", "ExactAtEnd"], properties=["PFinishes", "Aligned"]), scratch=scratch, timeout=3000)
                root_runs.append({"k": kk, "damped": damped, "distinct": rr.distinct, "ok": rr.ok})
                states += rr.distinct
                trans += rr.generated
                if rr.error:
                    rep.machinery("TLC Pyseqm: " + rr.error[:400])
                elif rr.violated:
                    rep.violation("model_property_violated", {"module": "Pyseqm", "k": kk, "damped": damped, "violated": rr.violated}, model=True, violated=rr.violated)
        root_mut = {}
        for name, over in (("resume_plain", {"XResumeMode": "plain"}), ("rng_not_restored", {"RngMode": "fresh"}), ("slot_fwd", {"XSlotMode": "fwd"})):
            c = dict(rootc, K=3, Damped=True, XSlotMode="rev", XResumeMode="minus1", RngMode="restore", StepsSet={6}, CkptSet={1, 2, 3})
            c.update(over)
            rm = tlc.run("PyseqmMC", dict(spec="PSpec", constants=c, substitutions={"Configs": "Lat"}, invariants=["EngineStateExact"]), scratch=scratch)
            root_mut[name] = rm.violated
            if not rm.violated:
                rep.machinery(f"vacuity: Pyseqm mutant {name} not refuted")
        # ---- 2. schedule export (spec -> code) -----------------------------------------
        n1, n2, n3 = (70, 50, 24) if tier == "quick" else (1200, 900, 300)
        sch1, r1 = S.export_schedules(ex, scratch, 1)
        # two crashes: the export runs on ONE worker (registers), so the thorough tier uses a medium lattice here, not the full one
        ex2 = ex if tier == "quick" else S.lattice_consts(steps=(4, 6), data=(1, 2), coord=(0, 3), vel=(0,), force=(0,), xyz=(0, 1, 2), ckpt=(1, 2, 3), prnt=(1,))
        sch2, r2 = S.export_schedules(ex2, scratch, 2, kinds=("soft", "hard"), crash_pcs={"scr", "xyz", "tmp", "replace", "next", "step", "data2"}, timeout=5400)
        if tier == "thorough":   # three crashes: exported on a small lattice (the export runs on one worker)
            ex3 = S.lattice_consts(steps=(4,), data=(1,), coord=(0, 2), vel=(0,), force=(0,), xyz=(0, 1), ckpt=(1, 2), prnt=(1,))
            sch3c, r3c = S.export_schedules(ex3, scratch, 3, kinds=("soft", "hard"), crash_pcs={"scr", "tmp", "replace", "next", "step"}, timeout=3000)
            sch2 = sch2 + [x for x in sch3c if len(x["sched"]) == 3]
            states += r3c.distinct
            trans += r3c.generated
        sch3, r3 = S.export_schedules(ex_tdm, scratch, 1, crash_pcs={"scr", "vec", "tmp", "next"})
        for r in (r1, r2, r3):
            states += r.distinct
            trans += r.generated
        multi = [s for s in sch2 if len(s["sched"]) >= 2]
        jobs = []
        pool = [(s, VARIANTS) for s in S.sample(rng, sch1, n1)] + [(s, VARIANTS) for s in S.sample(rng, multi, n2)]
        for n, (s, variants) in enumerate(pool):
            var = variants[n % len(variants)]
            jobs.append((S.case_from_cfg(s["cfg"], **var), s["sched"]))
        for n, s in enumerate(S.sample(rng, sch3, n3)):
            jobs.append((S.case_from_cfg(s["cfg"], engine="basic", system="h2o_h2", molid=[0, 1]), s["sched"]))
        # always-run schedules: hard kills right after a checkpoint whose interval wrote rows of only one kind
        # (vector rows only / data rows only / xyz only), at the first and at a later checkpoint
        def cfgd(steps, ckpt, xyz=0, **cad):
            c = {s: 0 for s in S.STREAMS}
            c.update(cad)
            return dict(steps=steps, cad=c, xyz=xyz, ckpt=ckpt, print=1)

        forced = [
            (cfgd(5, 2, coordinates=1), [["next", 1, "hard"]]),
            (cfgd(5, 2, coordinates=1), [["next", 3, "hard"]]),
            (cfgd(8, 2, data=4, velocities=1), [["next", 5, "hard"]]),
            (cfgd(8, 2, data=4, velocities=1), [["next", 1, "hard"], ["next", 5, "hard"]]),
            (cfgd(6, 3, data=1), [["next", 2, "hard"]]),
            (cfgd(6, 3, xyz=1, forces=2), [["replace", 2, "hard"], ["next", 5, "hard"]]),
            (cfgd(7, 2, data=3, coordinates=2, velocities=0, forces=0), [["tmp", 3, "hard"]]),
            (cfgd(6, 2, data=0, forces=1, xyz=2), [["next", 3, "hard"], ["scr", 5, "soft"]]),
        ]
        for n, (cfg, sched) in enumerate(forced):
            jobs.append((S.case_from_cfg(cfg, **VARIANTS[n % 3]), sched))
        for n, (case, _) in enumerate(jobs):
            case["id"] = "c%05d" % n
        results = S.run_all(jobs, scratch)
        traces = [r["result"]["trace"] for r in results if r.get("ok")]
        verdicts, tres = mdtrace.validate(traces, scratch, max_crash=3)
        if tres.error:
            rep.machinery("MDRunTrace: " + tres.error[:800])
        states += tres.distinct
        trans += tres.generated
        n_acc, samples = S.report_results(rep, jobs, results, verdicts, "tierA")
        # ---- 4. tier B: real electronic structure --------------------------------------
        rjobs = real_jobs(tier)
        rresults = S.run_all(rjobs, scratch)
        rtraces = [r["result"]["trace"] for r in rresults if r.get("ok")]
        rverdicts, rres = mdtrace.validate(rtraces, scratch, max_crash=3)
        if rres.error:
            rep.machinery("MDRunTrace(tier B): " + rres.error[:800])
        states += rres.distinct
        trans += rres.generated
        rn_acc, rsamples = S.report_results(rep, rjobs, rresults, rverdicts, "tierB")
        maxdev = max([r["result"].get("maxdev", 0.0) for r in rresults if r.get("ok")] or [0.0])
        # ---- 5. syscall-level kills --------------------------------------------------------
        sk_info, sk_traces, sk_byid, _ = syscall_kills(rep, tier, rng, scratch)
        if sk_traces:
            skv, skres = mdtrace.validate(sk_traces, scratch, max_crash=3)
            if skres.error:
                rep.machinery("MDRunTrace(syscall kills): " + skres.error[:600])
            states += skres.distinct
            trans += skres.generated
            for tid, v in skv.items():
                j, o = sk_byid[tid]
                if v["accepted"]:
                    sk_info["accepted"] += 1
                else:
                    ev = o["trace"]["ev"]
                    fields = dict(S.classify_fields(j["case"], [["syscall", 0, "hard"]]), syscall=j["syscall"], file=j["kind"])
                    rep.violation("property_violated_on_trace" if v["bad"] != "-" else "trace_rejected",
                                  {"case": j["case"], "kill_at": [j["syscall"], j["when"], j["kind"]], "matched_events": v["l"], "of": v["n"], "model_pc": v["pc"], "violated_property": v["bad"],
                                   "next_event_not_explained": ev[v["l"]] if v["l"] < len(ev) else None, "segments": o["segments"]}, rejected_at=(ev[v["l"]] if v["l"] < len(ev) else {}).get("name"), violated=v["bad"], **fields)
        # ---- 5b. state-completeness audit: every attribute of engine and molecule one step after a resume ----------
        acad = dict(data=1, coordinates=1, velocities=0, forces=0, na=0, tdm=0)
        abase = dict(molid=[0], steps=5, ckpt=2, cad=acad, xyz=0, print=0, stub=False, params={"scf_eps": 1.0e-9}, ckpt_step=2, tol=TOL)
        acases = [dict(abase, engine="basic", system="h2o_h2"), dict(abase, engine="langevin", system="h2o_h2", damp=5.0), dict(abase, engine="xl", system="h2o", k=4),
                  dict(abase, engine="xl", system="h2o_h2", k=3, damp=20.0), dict(abase, engine="ksa", system="h2o", k=3),
                  dict(abase, engine="fssh", system="h2co", params=FSSH, cad=dict(acad, na=1)), dict(abase, engine="basic", system="h2co", params=EXC),
                  dict(abase, engine="xl", system="h2co", params=EXC, k=4)]
        if tier == "thorough":
            acases += [dict(abase, engine="xl", system="h2o", k=k, ckpt=ck, ckpt_step=ck, steps=ck + 3) for k in (5, 6, 9) for ck in (1, 3)]
            acases += [dict(abase, engine="fssh", system="h2co_2", molid=[0, 1], params=FSSH, cad=dict(acad, na=2), damp=30.0), dict(abase, engine="basic", system="h2o_h2", run_kwargs={"scale_vel": [2, 250.0]})]
        for n, c in enumerate(acases):
            c["workdir"] = os.path.join(scratch, "audit_%02d" % n)
        ares = common.run_forked(acases, audit_driver.audit, timeout=2400)
        audit_info = {"runs": len(acases), "attributes_compared": 0, "clean": 0}
        # caches of the last full SCF evaluation: written by the t=0 SCF of a fresh XL run, never read by the XL step
        xl_caches = {"mol._gam", "mol._parnuc", "mol.w"}
        for c, rr in zip(acases, ares):
            fields = dict(engine=c["engine"], excited="excited_states" in c.get("params", {}), damped=c.get("damp") is not None)
            if not rr.get("ok") or "error" in rr["result"]:
                rep.machinery("state audit failed: " + str(rr.get("error") or rr["result"].get("error"))[:600])
                continue
            o = rr["result"]
            audit_info["attributes_compared"] += o["attrs"]
            diffs = [d for d in o["diffs"] if not (c["engine"] in ("xl", "ksa") and d["attr"] in xl_caches) and d["attr"] != "mol.seqm_parameters"]
            if diffs:
                rep.violation("engine_state_not_restored", {"case": {k: v for k, v in c.items() if k != "workdir"}, "attributes": diffs[:12]}, attr=diffs[0]["attr"], **fields)
            else:
                audit_info["clean"] += 1
        # ---- 6. executions of the repository's own MD tests (thorough) -----------------------------
        repo_info = {"segments": 0, "accepted": 0}
        if tier == "thorough":
            ev, rc, tail = repotraces.record(["tests/unit/test_md_checkpoint_resume.py", "tests/unit/test_md_suite.py", "tests/unit/test_nonadiabatic_checkpoint_resume.py"], scratch, "md")
            repo_info["pytest"] = tail
            segs = repotraces.md_segments(ev)
            repo_info["segments"] = len(segs)
            repo_info["engines"] = sorted({x["engine"] for x in segs})
            if rc != 0:
                rep.machinery("repository MD tests failed with hooks on: " + tail)
            rv, rres = repotraces.validate_md(segs, scratch)
            if rres is not None and rres.error:
                rep.machinery("MDRunTrace(repo tests): " + rres.error[:500])
            if rres is not None:
                states += rres.distinct
                trans += rres.generated
            for sg in segs:
                v = rv.get(sg["id"])
                if v is None:
                    rep.machinery("no verdict for repo segment " + sg["id"])
                elif v["accepted"]:
                    repo_info["accepted"] += 1
                else:
                    rep.violation("repo_test_execution_rejected", {"engine": sg["engine"], "cfg": sg["cfg"], "resumed_from": sg["resumed_from"], "matched": v["l"], "of": v["n"], "violated": v["bad"],
                                                                   "next_event_not_explained": sg["ev"][v["l"]] if v["l"] < len(sg["ev"]) else None}, engine=sg["engine"], violated=v["bad"], crashed=sg["resumed_from"] >= 0)
        n_unarmed = sum(1 for r in results if r.get("ok") and r["result"]["unarmed"])
        nontriv = len({common.sha([c["cad"], c["xyz"], c["ckpt"], c["steps"], c["engine"], s]) for c, s in jobs if s})
        cov = {
            "states": states,
            "transitions": trans,
            "traces_validated_against_impl": len(verdicts) + len(rverdicts) + len(sk_traces) + repo_info["segments"],
            "traces_accepted": n_acc + rn_acc + sk_info["accepted"],
            "syscall_level_kills": sk_info,
            "repository_test_executions": repo_info, "state_completeness_audit": audit_info,
            "tierB_real_es": {"runs": len(rjobs), "accepted": rn_acc, "tolerance": TOL, "largest_deviation_from_reference": maxdev,
                              "engines": sorted({c["engine"] + ("+exc" if "excited_states" in c.get("params", {}) else "") for c, _ in rjobs})},
            "samples": samples or [{"note": "no accepted trace"}],
            "tlc_runs": tlc_summary, "root_module_runs": root_runs, "root_module_mutants_refuted": root_mut,
            "schedules_exported": {"one_crash": len(sch1), "multi_crash": len(multi), "tdm": len(sch3)},
            "evaluations": len(jobs),
            "distinct_nontrivial": nontriv,
            "schedules_with_unaddressable_point": n_unarmed,
            "rule": "crash schedules exported from TLC (RecordHist) over hook-addressable program points x engine variant; non-trivial = at least one crash; distinct by (cadences, steps, ckpt cadence, engine, schedule)",
            "exhaustive": False,
            "model_constants": S.DESIGN,
            "max_crashes_model": maxc,
        }
        return rep.finish(
            cov,
            assumptions=[
                "process death only (exception or kill): no power loss, the code never fsyncs",
                "tier A uses a stub electronic structure whose published density depends on the density passed in, so unrestored electronic state shows up in the values",
                "row values compared bitwise with an uninterrupted reference run of the same seed",
                "the model follows the first molid's files; other molids are compared with it at the end",
                "state audit: all attributes of the engine and molecule objects one loop iteration after a resume against the uninterrupted run at the same step (tolerance 1e-6); segment bookkeeping, writers, settings dicts and the SCF caches an XL step never reads are exempt",
            ],
        )
    finally:
        common.rm(scratch)
