"""C20 - steepest-descent optimisation descends and stops truthfully.

TLC checks Optimizer (loop control of Geometry_Optimization_SD on exact quadratic wells, alpha k = 1/2,
batches of molecules with different start displacements): StopsAtFirstOk, EvalBound, CapReported,
ConvergedReported, ReturnFromLastEvaluation, Descent, PrefixIndependent, liveness Terminates; the
"< tol" and "wrong sign" mutants are refuted.  Every exported behaviour (start displacements x
tolerance x cap) is replayed on the real optimiser with a stub ES implementing the same wells:
number of evaluations, per-iteration max force and energies, stop iteration, report line, returned
residual force and energy change, final coordinates, immobile padding atom must equal the model's.
Real PES (monitored): distorted H2O / CH4 / padded H2O+H2, three step factors: energies descend while
the predicted decrease alpha |F|^2 exceeds 100 scf_eps, padding never moves, the path of a molecule in
a batch equals its solo path iteration by iteration.  First convergence exactly at the cap is
excluded from the report verdict (statement ambiguous)."""

import os

from drivers import opt_driver
from harness import common, tlc

PROP = "C20"
INV = ["StopsAtFirstOk", "EvalBound", "CapReported", "ConvergedReported", "ReturnFromLastEvaluation", "Descent", "PrefixIndependent"]


def main(tier):
    rep = common.Reporter(PROP, tier)
    rng = __import__("random").Random(common.seed() + 20)
    scratch = common.scratch_dir("c20")
    try:
        base = dict(Mols={1, 2} if tier == "quick" else {1, 2, 3}, X0Set={0, 1, 3, 4}, TolSet={2, 3, 4, 8}, CapSet={1, 2, 4, 6}, StopMode="le", MoveSign="plus")
        r = tlc.run("Optimizer", dict(spec="Spec", constants=base, invariants=INV, properties=["Terminates"]), scratch=scratch)
        if r.error:
            rep.machinery("TLC Optimizer: " + r.error[:500])
        elif r.violated:
            rep.violation("model_property_violated", {"violated": r.violated}, model=True)
        refuted = {}
        for name, over in (("lt", {"StopMode": "lt"}), ("minus", {"MoveSign": "minus"})):
            rr = tlc.run("Optimizer", dict(spec="Spec", constants=dict(base, Mols={1, 2}, **over), invariants=INV, properties=["Terminates"]), scratch=scratch)
            refuted[name] = rr.violated
            if not rr.violated:
                rep.machinery(f"vacuity: mutant {name} not refuted")
        out = os.path.join(scratch, "opt.ndjson")
        g = tlc.run("OptimizerGen", dict(spec="Spec", constants=base, invariants=INV + ["Collect"], postcondition="Export"), workers=1, env={"OUT_FILE": out}, scratch=scratch)
        recs = tlc.read_ndjson(out)
        # run variants of every behaviour with more than one molecule: rows of growing size with the moving atom last; no log
        nbase = len(recs)
        recs = recs + [dict(r, layout="last") for r in recs if len(r["x0"]) > 1] + [dict(r, log=False) for r in recs[::3]]
        res = common.run_forked(recs, opt_driver.run_exact, timeout=300)
        n_ok = 0
        samples = []
        for rec, rr in zip(recs, res):
            fields = dict(cap=rec["cap"], tol8=rec["tol8"], ambiguous=rec["ambiguous"], layout=rec.get("layout", "first"), log=rec.get("log", True))
            if not rr.get("ok"):
                rep.violation("replay_failed", {"case": {k: rec[k] for k in ("x0", "tol8", "cap")}, "error": rr.get("error"), "tb": str(rr.get("tb"))[-300:]}, **fields)
                continue
            bad = opt_driver.compare_exact(rec, rr["result"])
            if bad:
                rep.violation("optimizer_differs_from_model", {"case": {k: rec[k] for k in ("x0", "tol8", "cap", "it", "report")}, "mismatch": bad[:3]}, what=bad[0]["what"], **fields)
            else:
                n_ok += 1
                if len(samples) < 3 and rec["it"] > 1:
                    samples.append({"x0": rec["x0"], "tol": rec["tol8"] / 8, "cap": rec["cap"], "iterations": rec["it"], "report": rec["report"], "observed_final": rr["result"]["final"]})
        # ---- the same optimiser object used for a second run() -------------------------------------------
        bykey = {}
        for rec in recs:
            bykey.setdefault((rec["tol8"], rec["cap"], len(rec["x0"])), []).append(rec)
        pairs = []
        for k, lst in sorted(bykey.items()):
            lst = sorted(lst, key=lambda x: -x["it"])
            if len(lst) >= 2:
                pairs.append([lst[0], lst[-1]])
                pairs.append([lst[-1], lst[0]])
                pairs.append([lst[len(lst) // 2], lst[0]])
        pres = common.run_forked(pairs, opt_driver.run_exact_pair, timeout=300)
        n_pairs_ok = 0
        for pair, rr in zip(pairs, pres):
            if not rr.get("ok"):
                rep.violation("second_run_on_same_optimiser_failed", {"first": {k: pair[0][k] for k in ("x0", "tol8", "cap")}, "second": {k: pair[1][k] for k in ("x0", "tol8", "cap")}, "error": rr.get("error")}, cap=pair[1]["cap"], tol8=pair[1]["tol8"], ambiguous=False)
                continue
            bad = opt_driver.compare_exact(pair[1], rr["result"][1])
            if bad:
                rep.violation("second_run_depends_on_first", {"first": {k: pair[0][k] for k in ("x0", "tol8", "cap", "it")}, "second": {k: pair[1][k] for k in ("x0", "tol8", "cap", "it")}, "mismatch": bad[:3]}, what=bad[0]["what"], cap=pair[1]["cap"], tol8=pair[1]["tol8"], ambiguous=pair[1]["ambiguous"])
            else:
                n_pairs_ok += 1
        # ---- real PES ----------------------------------------------------------------------------
        alphas = [1e-3, 5e-3] if tier == "quick" else [1e-4, 1e-3, 5e-3, 2e-2]
        real = []
        for a in alphas:
            for mols in (["h2o"], ["h2"], ["h2o", "h2"], ["ch4", "h2o"]) if tier == "thorough" else (["h2o"], ["h2"], ["h2o", "h2"]):
                real.append(dict(mols=mols, alpha=a, tol=1e-3, cap=6 if tier == "quick" else 12))
        rres = common.run_forked(real, opt_driver.run_real, timeout=900)
        solo = {}
        worst_path = 0.0
        n_desc = 0
        for c, rr in zip(real, rres):
            if not rr.get("ok"):
                rep.machinery(f"real optimisation failed {c}: {rr.get('error')}")
                continue
            o = rr["result"]
            fields = dict(alpha=c["alpha"], batch=len(c["mols"]) > 1)
            if o["pad_moved"] != 0.0:
                rep.violation("padding_atom_moved", {"case": c, "moved": o["pad_moved"]}, **fields)
            if o["n"] > c["cap"]:
                rep.violation("more_evaluations_than_cap", {"case": c, "n": o["n"]}, **fields)
            for n in range(1, o["n"]):
                for m in range(len(c["mols"])):
                    pred = c["alpha"] * o["rows"][n - 1]["f2"][m]
                    # "sufficiently small step factor": alpha times the stiffest Cartesian force constant of these molecules
                    # (about 100 eV/A^2 for an X-H stretch) must stay below 1; at 2e-2 overshooting is legitimate
                    if pred > 100 * 1e-9 and c["alpha"] <= 5.0e-3:
                        n_desc += 1
                        if o["rows"][n]["E"][m] > o["rows"][n - 1]["E"][m]:
                            rep.violation("energy_increased", {"case": c, "iteration": n + 1, "mol": c["mols"][m], "E": [o["rows"][n - 1]["E"][m], o["rows"][n]["E"][m]], "predicted_decrease": pred}, **fields)
            if len(c["mols"]) == 1:
                solo[(c["mols"][0], c["alpha"])] = o
        for c, rr in zip(real, rres):
            if len(c["mols"]) < 2 or not rr.get("ok"):
                continue
            o = rr["result"]
            for m, name in enumerate(c["mols"]):
                s = solo.get((name, c["alpha"]))
                if s is None:
                    continue
                for n in range(min(o["n"], s["n"])):
                    d = abs(o["rows"][n]["E"][m] - s["rows"][n]["E"][0])
                    worst_path = max(worst_path, d)
                    if d > 1e-6:
                        rep.violation("path_depends_on_batch_mates", {"case": c, "mol": name, "iteration": n + 1, "dE": d}, alpha=c["alpha"], batch=True)
                        break
        cov = {
            "states": r.distinct + g.distinct, "transitions": r.generated + g.generated, "traces_validated_against_impl": len(recs), "behaviours_matching": n_ok,
            "samples": samples or [{"note": "none"}], "mutants_refuted": refuted, "reused_optimiser_pairs": len(pairs), "reused_optimiser_pairs_matching": n_pairs_ok, "real_pes_runs": len(real), "descent_comparisons": n_desc, "worst_batch_vs_solo_energy_difference": worst_path,
            "ambiguous_cap_coincidences_excluded": len([x for x in recs if x["ambiguous"]]),
            "evaluations": len(recs) + len(real), "distinct_nontrivial": len([x for x in recs if x["it"] > 1]),
            "rule": "every behaviour (start displacements x tolerance x cap) exported by TLC; non-trivial = more than one evaluation", "exhaustive": True,
        }
        return rep.finish(cov, assumptions=["exact family: one coordinate per molecule in a quadratic well with alpha k = 1/2", "descent on the real PES required only while alpha|F|^2 > 100 scf_eps and for step factors up to 5e-3 (alpha * 100 eV/A^2 < 1); 2e-2 is run for the other clauses only"])
    finally:
        common.rm(scratch)
