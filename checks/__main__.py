import argparse
import importlib
import os
import sys
import traceback


def main():
    ap = argparse.ArgumentParser()
    ap.add_argument("prop")
    ap.add_argument("--tier", default=os.environ.get("VERIF_TIER", "quick"), choices=["quick", "thorough"])
    ap.add_argument("--replay", default=None)
    a = ap.parse_args()
    try:
        mod = importlib.import_module("checks." + a.prop.lower())
    except ModuleNotFoundError as ex:
        print(f"no check for {a.prop}: {ex}", file=sys.stderr)
        return 2
    try:
        if a.replay:
            return mod.replay(a.replay)
        return mod.main(a.tier)
    except SystemExit:
        raise
    except BaseException:
        traceback.print_exc()
        return 2


sys.exit(main())
