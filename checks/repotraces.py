"""Code -> spec on executions the repository's own tests produce: runs selected test files with the hooks on
(one pytest process, trace file via LANL_PYSEQM_VERIF_TRACE), splits the event stream into MD segments, SCF spans,
SP2 calls and Davidson solves and validates each against the corresponding trace specification with TLC.
Used by the thorough tiers of C10 (md), C03 (scf, sp2) and C16 (davidson)."""

import json
import os
import subprocess

from drivers import dav_driver, scf_driver
from harness import common, mdtrace, tlc
from harness.tlc import Raw

STREAMS = mdtrace.STREAMS


def record(test_files, scratch, tag, timeout=3000):
    path = os.path.join(scratch, f"repo_{tag}.ndjson")
    if os.path.exists(path):
        os.remove(path)
    env = dict(os.environ, LANL_PYSEQM_VERIF="1", LANL_PYSEQM_VERIF_TRACE=path, PYTHONPATH=common.REPO, OMP_NUM_THREADS="4", PYTHONWARNINGS="ignore")
    p = subprocess.run(["/venv/bin/python", "-m", "pytest", "-q", "-p", "no:cacheprovider", "-p", "no:xdist", "--timeout=1800", "-x"] + list(test_files), cwd=common.REPO, env=env,
                       stdout=subprocess.PIPE, stderr=subprocess.STDOUT, text=True, timeout=timeout)
    tail = p.stdout.strip().splitlines()[-1] if p.stdout.strip() else ""
    ev = tlc.read_ndjson(path) if os.path.exists(path) else []
    return ev, p.returncode, tail


def md_segments(events):
    """init .. close spans -> independent MDRunTrace traces (fresh or resumed-from-checkpoint)."""
    traces = []
    cur = None
    pending_mid = []
    for e in events:
        n = e.get("ev", "")
        if not n.startswith("md."):
            continue
        if n == "md.init":
            cad = e["cad"]
            cfg = {"steps": e["steps"], "cad": {s: int(cad.get(s, 0)) for s in STREAMS}, "xyz": int(cad.get("xyz", 0)), "ckpt": int(cad.get("ckpt", 0)), "print": int(cad.get("print", 0))}
            cur = {"id": "seg%04d" % len(traces), "cfg": cfg, "resumed_from": int(e["offset"]) if e["offset"] > 0 else -1, "engine": e["engine"], "ev": [], "first": str(e["molid"][0]) if e["molid"] else None, "last_i": e["offset"] - 1}
            c = e.get("cur") or {}
            vals = list(c.values())
            curs = {s: int(vals[0].get(s, 0)) for s in STREAMS} if vals else {s: 0 for s in STREAMS}
            cur["ev"].append({"name": "init", "offset": int(e["offset"]), "cur": curs})
            continue
        if cur is None:
            continue

        def curs_of(ev):
            c = ev.get("cur") or {}
            vals = list(c.values())
            return {s: int(vals[0].get(s, 0)) for s in STREAMS} if vals else {s: 0 for s in STREAMS}

        if n == "md.data.mid":
            if str(e.get("mol")) == cur["first"]:
                cur["ev"].append({"name": "data.mid", "step": int(e["step"])})
        elif n in ("md.step", "md.xyz", "md.flush"):
            cur["ev"].append({"name": n[3:], "i": int(e["i"])})
        elif n in ("md.data", "md.vec", "md.na", "md.iter_end"):
            cur["ev"].append({"name": n[3:], "i": int(e["i"]), "cur": curs_of(e)})
            if n == "md.iter_end":
                cur["last_i"] = int(e["i"])
        elif n in ("md.ckpt_tmp", "md.ckpt_replace"):
            cur["ev"].append({"name": n[3:], "step_done": int(e["step_done"])})
        elif n == "md.close":
            finished = cur["last_i"] + 1 >= cur["cfg"]["steps"]
            cur["ev"].append({"name": "close"} if finished else {"name": "crash", "kind": "soft"})
            cur["finished"] = finished
            traces.append(cur)
            cur = None
    return traces


def validate_md(traces, scratch):
    if not traces:
        return {}, None
    payload = [{k: t[k] for k in ("id", "cfg", "ev", "resumed_from")} for t in traces]
    path = os.path.join(scratch, "traces.ndjson")
    return mdtrace.validate(payload, scratch, max_crash=3)


def scf_spans(events):
    return scf_driver.split_traces([e for e in events if e.get("ev", "").startswith(("scf.", "sp2."))], "repo", None)


def dav_solves(events):
    return dav_driver.split([e for e in events if e.get("ev", "").startswith("dav.")], "repo")
