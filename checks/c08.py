"""C08 (partial) - NVE dynamics: kick-drift-kick structure, force at the new positions, written thermo
belongs to the written phase point; exact momentum conservation, reversibility and angular-momentum
conservation on an exact model that the real integrator is replayed against.

TLC checks VVExact (dyadic-rational velocity Verlet, 3 particles, masses {1,2}, dt 1/2, linear springs,
optional field) exhaustively over the initial-condition lattice: Exact, MomentumConserved,
AngularConserved, Reversible; the order mutants ABFB / stale-force are refuted.  Every exported
behaviour is replayed on the real Molecular_Dynamics_Basic.run (stub electronic structure = the same
springs, dyadic masses): coordinates, velocities, forces, Ek, Ep, T rows of the HDF5 output must equal
the exact rationals to 1e-11 for their own step label (unit constants are the driver's own literals).
Monitored on the real potential-energy surface (H2O and padded batches, scf_eps 1e-11, density reuse on/off): time reversal
to 1e-7, end-point differences and total-energy fluctuation fall by 4 (within [3.5, 4.6] / [3.3, 4.8]) when the step is halved
(0.4 / 0.2 / 0.1 / 0.05 fs), no drift beyond the fluctuation - on generically oriented molecules; molecules with a bond along the x
axis converge only at first order (known finding: the local-frame rotation snaps directions near the -x axis)."""

from harness import common

from . import vvshared as VS

PROP = "C08"


def real_pes(case):
    """Real electronic structure (scf_eps 1e-11): time reversal, dt^2 convergence of the trajectory (successive differences of the
    end point under step halving) and of the total-energy fluctuation, no drift beyond the fluctuation.  case["rotate"]: the
    molecule is first turned by a generic rotation (no bond along a coordinate axis)."""
    import math
    import os

    import h5py
    import numpy as np
    import torch

    from drivers import mdlib

    common.quiet_stdio()
    mdlib.use_stub(False)
    wd = case["workdir"]
    os.makedirs(wd, exist_ok=True)
    g = torch.Generator().manual_seed(5)
    a, b, c = 0.7, 0.4, 1.1
    Rz = torch.tensor([[math.cos(a), -math.sin(a), 0], [math.sin(a), math.cos(a), 0], [0, 0, 1]], dtype=torch.float64)
    Ry = torch.tensor([[math.cos(b), 0, math.sin(b)], [0, 1, 0], [-math.sin(b), 0, math.cos(b)]], dtype=torch.float64)
    Rx = torch.tensor([[1, 0, 0], [0, math.cos(c), -math.sin(c)], [0, math.sin(c), math.cos(c)]], dtype=torch.float64)
    R = Rz @ Ry @ Rx if case.get("rotate") else torch.eye(3, dtype=torch.float64)

    def run(tag, dt, steps, x0, v0):
        cc = dict(engine="basic", system=case["system"], molid=[0], steps=steps, cad=dict(data=1, coordinates=1, velocities=1), xyz=0, ckpt=0, print=0, dt=dt, temp=0.0,
                  params={"scf_eps": 1.0e-11}, reuse_P=case["reuse_P"])
        md, mol, rk = mdlib.build_md(cc, os.path.join(wd, tag))
        with torch.no_grad():
            mol.coordinates.copy_(x0)
        mol.velocities = v0.clone()
        md.run(mol, **rk)
        with h5py.File(os.path.join(wd, tag + ".0.h5")) as f:
            E = f["data/thermo/Ek"][()] + f["data/thermo/Ep"][()]
        return mol.coordinates.detach().clone(), mol.velocities.detach().clone(), E

    md, mol, rk = mdlib.build_md(dict(engine="basic", system=case["system"], molid=[0], steps=1, cad={}, params={}), os.path.join(wd, "x"))
    real = (mol.species > 0).unsqueeze(-1).to(torch.float64)
    xs = (mol.coordinates.detach() @ R.T).clone()
    v0 = 0.012 * (torch.rand(xs.shape, generator=g, dtype=torch.float64) - 0.5) * real
    out = {}
    x1, v1, _ = run("fwd", 0.4, 8, xs, v0)
    x2, v2, _ = run("bwd", 0.4, 8, x1, -v1)
    out["reversal_dx"] = float((x2 - xs).abs().max())
    out["reversal_dv"] = float((v2 + v0).abs().max())
    T = 3.2
    ends, flucts, drifts = {}, {}, {}
    for dt in (0.4, 0.2, 0.1, 0.05):
        xf, _, E = run("dt%g" % dt, dt, int(round(T / dt)), xs, v0)
        ends[dt] = xf
        flucts["%g" % dt] = float(np.abs(E - E[0]).max())
        drifts["%g" % dt] = float(abs(E[-1] - E[0]))
    out["diff"] = [float((ends[p] - ends[q]).abs().max()) for p, q in ((0.4, 0.2), (0.2, 0.1), (0.1, 0.05))]
    out.update(fluct=flucts, drift=drifts)
    return out


def excited_md(case):
    """Excited-state BOMD on a batch whose molecules sit on different excited states: the written total energy must be conserved
    at the level of the integrator (fluctuation falls by 4 under step halving and stays small)."""
    import os

    import h5py
    import numpy as np
    import torch

    from drivers import mdlib

    common.quiet_stdio()
    mdlib.use_stub(False)
    wd = case["workdir"]
    os.makedirs(wd, exist_ok=True)
    out = {}
    g = torch.Generator().manual_seed(8)
    v0 = None
    for dt in (0.2, 0.1):
        params = {"scf_eps": 1.0e-10, "excited_states": {"n_states": 3, "method": "cis", "tolerance": 1e-8}, "active_state": torch.tensor(case["active"], dtype=torch.int64)}
        c = dict(engine="basic", system="h2co_2", molid=[0, 1], steps=int(round(2.4 / dt)), cad=dict(data=1), xyz=0, ckpt=0, print=0, dt=dt, temp=0.0, params=params, reuse_P=True)
        md, mol, rk = mdlib.build_md(c, os.path.join(wd, "dt%g" % dt))
        if v0 is None:
            v0 = 0.01 * (torch.rand(mol.coordinates.shape, generator=g, dtype=torch.float64) - 0.5)
        mol.velocities = v0.clone()
        md.run(mol, **rk)
        fl = []
        for m in (0, 1):
            with h5py.File(os.path.join(wd, "dt%g.%d.h5" % (dt, m))) as f:
                E = f["data/thermo/Ek"][()] + f["data/thermo/Ep"][()]
            fl.append(float(np.abs(E - E[0]).max()))
        out["%g" % dt] = fl
    return out


def main(tier):
    rep = common.Reporter(PROP, tier)
    rng = __import__("random").Random(common.seed() + 8)
    scratch = common.scratch_dir("c08")
    try:
        states = trans = 0
        r = VS.check({}, scratch)
        states += r.distinct
        trans += r.generated
        if r.error:
            rep.machinery("TLC VVExact: " + r.error[:500])
        elif r.violated:
            rep.violation("model_property_violated", {"violated": r.violated, "cex": r.counterexample[-1:]}, model=True)
        refuted = {}
        for order in ("ABFB", "BAFB_stale"):
            rr = VS.check({"StepOrder": order}, scratch)
            refuted[order] = rr.violated
            if not rr.violated:
                rep.machinery(f"vacuity: order mutant {order} not refuted")
        recs, g = VS.export({}, scratch, "nve")
        recs2, g2 = VS.export({"NP": 2}, scratch, "nve2", subs={"PosSet": "PosSet2", "VelSet": "VelSetBig"})
        states += g.distinct + g2.distinct
        trans += g.generated + g2.generated
        allrecs = recs + recs2
        if tier == "quick":
            allrecs = rng.sample(allrecs, min(len(allrecs), 120))
        var = VS.variants(recs + recs2, rng, 40 if tier == "quick" else 400)
        results = VS.replay_all(allrecs, scratch, "nve") + VS.replay_all(var, scratch, "nvevar")
        n_ok = 0
        samples = []
        for c, res, bad in results:
            if bad:
                rep.violation("real_integrator_differs_from_exact_model", {"masses": c["m"], "field": c["g"], "x0": c["hist"][0]["x"], "v0": c["hist"][0]["v"], "mismatch": bad},
                              what=bad[0].get("what"), field=any(c["g"]), variant=c.get("variant", "plain"))
            else:
                n_ok += 1
                if len(samples) < 2:
                    samples.append({"masses": c["m"], "field": c["g"], "x0": c["hist"][0]["x"], "v0": c["hist"][0]["v"], "x_last_exact": c["hist"][-1]})
        # ---- monitored on the real potential-energy surface ---------------------------------------------------------
        pcases = [dict(system="h2o", reuse_P=True, rotate=True), dict(system="h2o_h2", reuse_P=False, rotate=True), dict(system="h2o", reuse_P=True, rotate=False)]
        if tier == "thorough":
            pcases += [dict(system="nh3_h2o", reuse_P=True, rotate=True), dict(system="h2co", reuse_P=False, rotate=True), dict(system="nh3_h2o", reuse_P=False, rotate=False)]
        for n, c in enumerate(pcases):
            c["workdir"] = __import__("os").path.join(scratch, "pes_%d" % n)
        pres = common.run_forked(pcases, real_pes, timeout=1800)
        pes_info = []
        for c, rr in zip(pcases, pres):
            if not rr.get("ok"):
                rep.machinery("real-PES monitor failed: " + str(rr.get("error")) + str(rr.get("tb"))[-300:])
                continue
            o = rr["result"]
            r1, r2 = o["diff"][0] / o["diff"][1], o["diff"][1] / o["diff"][2]
            f1, f2 = o["fluct"]["0.4"] / o["fluct"]["0.2"], o["fluct"]["0.2"] / o["fluct"]["0.1"]
            info = {"system": c["system"], "reuse_P": c["reuse_P"], "generic_orientation": c["rotate"], "reversal_dx": o["reversal_dx"], "end_point_differences": o["diff"], "trajectory_ratios": [r1, r2],
                    "energy_fluctuation_ratios": [f1, f2], "fluct": o["fluct"], "drift": o["drift"]}
            pes_info.append(info)
            fields = dict(system=c["system"], reuse_P=c["reuse_P"], variant="real_pes", axis_aligned_bond=not c["rotate"])
            if o["reversal_dx"] > 1.0e-7 or o["reversal_dv"] > 1.0e-7:
                rep.violation("trajectory_not_time_reversible", info, what="reversal", **fields)
            if not (3.5 <= r1 <= 4.6 and 3.5 <= r2 <= 4.6):
                rep.violation("trajectory_error_not_second_order", info, what="order", **fields)
            if not (3.3 <= f1 <= 4.8 and 3.3 <= f2 <= 4.8):
                rep.violation("energy_fluctuation_not_second_order", info, what="fluctuation", **fields)
            if any(o["drift"][dt] > 1.5 * o["fluct"][dt] + 1e-9 for dt in o["drift"]):
                rep.violation("energy_drift_beyond_fluctuation", info, what="drift", **fields)
        ecases = [dict(active=[1, 2], workdir=__import__("os").path.join(scratch, "exmd_0"))] + ([dict(active=[2, 1], workdir=__import__("os").path.join(scratch, "exmd_1"))] if tier == "thorough" else [])
        eres = common.run_forked(ecases, excited_md, timeout=1800)
        for c, rr in zip(ecases, eres):
            if not rr.get("ok"):
                rep.machinery("excited-state MD monitor failed: " + str(rr.get("error")) + str(rr.get("tb"))[-300:])
                continue
            o = rr["result"]
            info = {"active_states": c["active"], "fluctuation": o}
            pes_info.append(info)
            for m in (0, 1):
                ratio = o["0.2"][m] / max(o["0.1"][m], 1e-300)
                if o["0.2"][m] > 5.0e-3 or not 3.0 <= ratio <= 5.0:
                    rep.violation("excited_state_md_energy_not_conserved", dict(info, molecule=m, ratio=ratio), what="excited_md", system="h2co_2", reuse_P=True, variant="real_pes", axis_aligned_bond=False)
        cov = {
            "real_pes_monitors": pes_info,
            "states": states, "transitions": trans, "traces_validated_against_impl": len(results), "behaviours_matching": n_ok,
            "samples": samples or [{"note": "none"}], "order_mutants_refuted": refuted, "behaviours_exported": len(recs) + len(recs2),
            "evaluations": len(results), "distinct_nontrivial": len([1 for c, _, _ in results if any(any(p) for p in c["hist"][0]["v"])]),
            "rule": "initial conditions (masses x positions x velocities x field) enumerated by TLC; non-trivial = non-zero initial velocity",
            "exhaustive": tier == "thorough", "tolerance": 1e-11,
        }
        return rep.finish(cov, assumptions=["exact model: linear pair springs + constant field, masses {1,2}, dt = 1/2, <= 3 steps (32-bit integers)", "order / drift on the real SCF surface are not decided"])
    finally:
        common.rm(scratch)
