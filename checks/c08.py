"""C08 (partial) - NVE dynamics: kick-drift-kick structure, force at the new positions, written thermo
belongs to the written phase point; exact momentum conservation, reversibility and angular-momentum
conservation on an exact model that the real integrator is replayed against.

TLC checks VVExact (dyadic-rational velocity Verlet, 3 particles, masses {1,2}, dt 1/2, linear springs,
optional field) exhaustively over the initial-condition lattice: Exact, MomentumConserved,
AngularConserved, Reversible; the order mutants ABFB / stale-force are refuted.  Every exported
behaviour is replayed on the real Molecular_Dynamics_Basic.run (stub electronic structure = the same
springs, dyadic masses): coordinates, velocities, forces, Ek, Ep, T rows of the HDF5 output must equal
the exact rationals to 1e-11 for their own step label (unit constants are the driver's own literals).
Not decided: order / drift on the real quantum PES."""

from harness import common

from . import vvshared as VS

PROP = "C08"


def main(tier):
    rep = common.Reporter(PROP, tier)
    rng = __import__("random").Random(common.seed() + 8)
    scratch = common.scratch_dir("c08")
    try:
        states = trans = 0
        r = VS.check({}, scratch)
        states += r.distinct
        trans += r.generated
        if r.error:
            rep.machinery("TLC VVExact: " + r.error[:500])
        elif r.violated:
            rep.violation("model_property_violated", {"violated": r.violated, "cex": r.counterexample[-1:]}, model=True)
        refuted = {}
        for order in ("ABFB", "BAFB_stale"):
            rr = VS.check({"StepOrder": order}, scratch)
            refuted[order] = rr.violated
            if not rr.violated:
                rep.machinery(f"vacuity: order mutant {order} not refuted")
        recs, g = VS.export({}, scratch, "nve")
        recs2, g2 = VS.export({"NP": 2}, scratch, "nve2", subs={"PosSet": "PosSet2", "VelSet": "VelSetBig"})
        states += g.distinct + g2.distinct
        trans += g.generated + g2.generated
        allrecs = recs + recs2
        if tier == "quick":
            allrecs = rng.sample(allrecs, min(len(allrecs), 120))
        var = VS.variants(recs + recs2, rng, 40 if tier == "quick" else 400)
        results = VS.replay_all(allrecs, scratch, "nve") + VS.replay_all(var, scratch, "nvevar")
        n_ok = 0
        samples = []
        for c, res, bad in results:
            if bad:
                rep.violation("real_integrator_differs_from_exact_model", {"masses": c["m"], "field": c["g"], "x0": c["hist"][0]["x"], "v0": c["hist"][0]["v"], "mismatch": bad},
                              what=bad[0].get("what"), field=any(c["g"]), variant=c.get("variant", "plain"))
            else:
                n_ok += 1
                if len(samples) < 2:
                    samples.append({"masses": c["m"], "field": c["g"], "x0": c["hist"][0]["x"], "v0": c["hist"][0]["v"], "x_last_exact": c["hist"][-1]})
        cov = {
            "states": states, "transitions": trans, "traces_validated_against_impl": len(results), "behaviours_matching": n_ok,
            "samples": samples or [{"note": "none"}], "order_mutants_refuted": refuted, "behaviours_exported": len(recs) + len(recs2),
            "evaluations": len(results), "distinct_nontrivial": len([1 for c, _, _ in results if any(any(p) for p in c["hist"][0]["v"])]),
            "rule": "initial conditions (masses x positions x velocities x field) enumerated by TLC; non-trivial = non-zero initial velocity",
            "exhaustive": tier == "thorough", "tolerance": 1e-11,
        }
        return rep.finish(cov, assumptions=["exact model: linear pair springs + constant field, masses {1,2}, dt = 1/2, <= 3 steps (32-bit integers)", "order / drift on the real SCF surface are not decided"])
    finally:
        common.rm(scratch)
