"""C11 - each output stream is written at exactly its own requested cadence.

1. TLC checks MDRun exhaustively over a cadence lattice (no crash; and one crash for the
   resumed variant) with the design constants: CadenceExact = H5Equal, XyzExactlyOnce,
   ScreenExact, CkptCadence, CursorAtCap (capacity = rows written).
   The nonadiabatic stream is exercised with real surface-hopping runs (fresh and resumed, cadences not
   dividing the run length or the checkpoint step).
2. The lattice is exported from TLC; sampled (quick) or swept (thorough) points are replayed on
   the real run loop (stub electronic structure; engines basic / Langevin / XL-BOMD; molid
   subsets of a three-row batch; fresh and resumed), the hook traces + final disk projection
   are validated against MDRun by TLC (MDRunTrace), and row values are compared bitwise with
   an all-cadences-one reference run (values of the labelled step, independent of other
   cadences).
"""

import os

from harness import common, mdtrace

from . import mdshared as S

PROP = "C11"


def lattices(tier):
    if tier == "quick":
        main = S.lattice_consts(steps=(1, 4, 6), data=(0, 1, 2, 3, 5), coord=(0, 1, 2, 3, 5), vel=(0, 1, 2, 3, 5), force=(0, 2, 3, 7),
                                xyz=(0, 2, 3), ckpt=(0, 2), prnt=(0, 1, 3))
        resumed = S.lattice_consts(steps=(5,), data=(0, 1, 2, 3), coord=(0, 1, 2, 3), vel=(0, 2, 3), force=(0, 3), xyz=(0, 1, 2), ckpt=(2, 3), prnt=(1, 3))
        tdm = S.lattice_consts(steps=(6,), data=(1, 2, 3), coord=(0,), vel=(0,), force=(0,), tdm=(0, 1, 2, 3, 4), xyz=(0,), ckpt=(0, 2), prnt=(1,))
    else:
        main = S.lattice_consts(steps=(1, 2, 3, 4, 5, 6), data=(0, 1, 2, 3, 5, 7), coord=(0, 1, 2, 3, 5, 7), vel=(0, 1, 2, 3, 5, 7), force=(0, 1, 2, 3, 5, 7),
                                xyz=(0, 1, 2, 3, 7), ckpt=(0, 2, 3), prnt=(0, 1, 3))
        resumed = S.lattice_consts(steps=(3, 5, 6), data=(0, 1, 2, 3, 5), coord=(0, 1, 2, 3), vel=(0, 1, 2, 3), force=(0, 2, 3), xyz=(0, 1, 2, 3), ckpt=(1, 2, 3, 4), prnt=(0, 1, 3))
        tdm = S.lattice_consts(steps=(4, 6, 7), data=(1, 2, 3), coord=(0, 2), vel=(0,), force=(0,), tdm=(0, 1, 2, 3, 4, 5), xyz=(0,), ckpt=(0, 2, 3), prnt=(1,))
    return main, resumed, tdm


VARIANTS = [
    dict(engine="basic", system="three", molid=[0]),
    dict(engine="basic", system="three", molid=[1]),
    dict(engine="basic", system="three", molid=[0, 2]),
    dict(engine="basic", system="three", molid=[0, 1, 2]),
    dict(engine="langevin", system="h2o_h2", molid=[0, 1]),
    dict(engine="langevin", system="three", molid=[2]),
    dict(engine="xl", system="h2o_h2", molid=[1], k=3),
    dict(engine="xl", system="h2o_h2", molid=[0, 1], k=5, damp=30.0),
    dict(engine="ksa", system="h2o_h2", molid=[0], k=4),
]


def nontrivial(cfg):
    pos = {c for c in list(cfg["cad"].values()) + [cfg["xyz"], cfg["print"], cfg["ckpt"]] if c > 0}
    return len(pos) >= 2


def main(tier):
    rep = common.Reporter(PROP, tier)
    rng = S.rng()
    scratch = common.scratch_dir("c11")
    states = trans = 0
    try:
        lat_main, lat_res, lat_tdm = lattices(tier)
        # ---- 1. TLC, design constants ----------------------------------------------------
        runs = []
        r1 = S.tlc_check(lat_main, scratch, max_crash=0, properties=("Finishes",))
        runs.append(("lattice/no-crash", r1))
        r2 = S.tlc_check(lat_res, scratch, max_crash=1, crash_pcs={"next", "step", "scr", "xyz"}, properties=("Finishes",))
        runs.append(("lattice/one-crash", r2))
        r3 = S.tlc_check(lat_tdm, scratch, max_crash=0, properties=("Finishes",))
        runs.append(("tdm-lattice/no-crash", r3))
        tlc_summary = []
        for name, r in runs:
            tlc_summary.append({"run": name, "generated": r.generated, "distinct": r.distinct, "depth": r.depth, "wall_s": round(r.wall, 1), "ok": r.ok})
            states += r.distinct
            trans += r.generated
            if r.error:
                rep.machinery(f"TLC {name}: {r.error[:800]}")
            elif r.violated:
                rep.violation("model_property_violated", {"run": name, "violated": r.violated, "counterexample": r.counterexample[-3:]}, model=True, violated=r.violated)
        # ---- 2. export + replay --------------------------------------------------------
        cfgs_main = S.export_lattice(lat_main, scratch)
        cfgs_res = S.export_lattice(lat_res, scratch)
        cfgs_tdm = S.export_lattice(lat_tdm, scratch)
        n_main, n_res, n_tdm = (48, 16, 8) if tier == "quick" else (1500, 300, 120)
        pick = S.sample(rng, [c for c in cfgs_main if nontrivial(c)], n_main)
        # always include pairwise-coprime / larger-than-run / zero cadences
        forced = [
            dict(steps=6, cad=dict(data=1, coordinates=2, velocities=3, forces=5, na=0, tdm=0), xyz=2, ckpt=0, print=1),
            dict(steps=6, cad=dict(data=5, coordinates=3, velocities=2, forces=7, na=0, tdm=0), xyz=3, ckpt=2, print=3),
            dict(steps=4, cad=dict(data=0, coordinates=0, velocities=3, forces=0, na=0, tdm=0), xyz=0, ckpt=0, print=0),
            dict(steps=6, cad=dict(data=2, coordinates=0, velocities=0, forces=2, na=0, tdm=0), xyz=0, ckpt=0, print=1),
            # XYZ (and screen) only: no HDF5 stream at all
            dict(steps=6, cad=dict(data=0, coordinates=0, velocities=0, forces=0, na=0, tdm=0), xyz=2, ckpt=0, print=1),
            dict(steps=5, cad=dict(data=0, coordinates=0, velocities=0, forces=0, na=0, tdm=0), xyz=1, ckpt=0, print=0),
        ]
        forced_resumed = [
            dict(steps=6, cad=dict(data=2, coordinates=3, velocities=0, forces=0, na=0, tdm=0), xyz=2, ckpt=2, print=3),
            dict(steps=7, cad=dict(data=0, coordinates=0, velocities=0, forces=0, na=0, tdm=0), xyz=3, ckpt=4, print=0),
            dict(steps=7, cad=dict(data=1, coordinates=0, velocities=2, forces=0, na=0, tdm=0), xyz=0, ckpt=4, print=3),
        ]
        jobs = []
        for n, cfg in enumerate(forced + pick):
            var = VARIANTS[n % len(VARIANTS)] if n >= len(forced) else VARIANTS[3]
            jobs.append((S.case_from_cfg(cfg, **var), []))
        # resumed: one soft crash right after the first checkpoint was published
        for n, cfg in enumerate(S.sample(rng, [c for c in cfgs_res if nontrivial(c) and c["ckpt"] <= c["steps"]], n_res)):
            var = VARIANTS[(n * 2 + 1) % len(VARIANTS)]
            kind = "soft" if n % 2 == 0 else "hard"
            jobs.append((S.case_from_cfg(cfg, **var), [["next", cfg["ckpt"] - 1, kind]]))
        for n, cfg in enumerate(forced_resumed):
            jobs.append((S.case_from_cfg(cfg, **VARIANTS[(3 * n) % len(VARIANTS)]), [["next", cfg["ckpt"] - 1, "soft"]]))
        # TDM is not one of the streams C11 lists; fresh runs are replayed here as coded (rows where both
        # /data and the TDM cadence are due); resumed TDM runs belong to C10.
        for n, cfg in enumerate(S.sample(rng, [c for c in cfgs_tdm if c["cad"]["tdm"] > 0], n_tdm)):
            jobs.append((S.case_from_cfg(cfg, engine="basic", system="h2o_h2", molid=[0, 1]), []))
        # nonadiabatic stream: real surface-hopping runs (real excited states), fresh and resumed, cadences that do not divide
        # the run length / the checkpoint step
        fssh = {"excited_states": {"n_states": 2, "method": "cis"}, "scf_eps": 1.0e-9}
        na_cfgs = [dict(steps=5, cad=dict(data=0, coordinates=0, velocities=0, forces=0, na=2, tdm=0), xyz=0, ckpt=2, print=1),      # the nonadiabatic stream alone
                   dict(steps=6, cad=dict(data=1, coordinates=2, velocities=0, forces=0, na=3, tdm=0), xyz=0, ckpt=2, print=1),
                   dict(steps=5, cad=dict(data=2, coordinates=0, velocities=1, forces=0, na=2, tdm=0), xyz=2, ckpt=3, print=0)]
        if tier != "quick":
            na_cfgs += [dict(steps=7, cad=dict(data=3, coordinates=1, velocities=0, forces=2, na=na, tdm=0), xyz=0, ckpt=ck, print=1) for na in (1, 2, 3, 4, 5) for ck in (2, 3)]
        for cfg in na_cfgs:
            jobs.append((S.case_from_cfg(cfg, engine="fssh", system="h2co", molid=[0], params=fssh, stub=False, tol=1.0e-6), []))
            jobs.append((S.case_from_cfg(cfg, engine="fssh", system="h2co", molid=[0], params=fssh, stub=False, tol=1.0e-6), [["next", cfg["ckpt"] - 1, "soft"]]))
        for n, (case, _) in enumerate(jobs):
            case["id"] = "c%05d" % n
        results = S.run_all(jobs, scratch)
        traces = [r["result"]["trace"] for r in results if r.get("ok")]
        verdicts, tres = mdtrace.validate(traces, scratch, max_crash=1)
        if tres.error:
            rep.machinery("MDRunTrace: " + tres.error[:800])
        states += tres.distinct
        trans += tres.generated
        n_acc, samples = S.report_results(rep, jobs, results, verdicts, "replay")
        distinct = len({S.common.sha([c["cad"], c["xyz"], c["print"], c["ckpt"], c["steps"], c["engine"], c["molid"], s]) for c, s in jobs})
        cov = {
            "states": states,
            "transitions": trans,
            "traces_validated_against_impl": len(verdicts),
            "traces_accepted": n_acc,
            "samples": samples or [{"note": "no accepted trace"}],
            "tlc_runs": tlc_summary,
            "lattice_sizes": {"main": len(cfgs_main), "resumed": len(cfgs_res), "tdm": len(cfgs_tdm)},
            "evaluations": len(jobs),
            "distinct_nontrivial": distinct,
            "rule": "lattice points exported from TLC (LatticeOK) with >= 2 different positive cadences, x engine/molid variant x fresh|resumed; distinct by (cadences, steps, engine, molid, schedule)",
            "exhaustive": tier == "thorough",
            "model_constants": S.DESIGN,
        }
        return rep.finish(
            cov,
            assumptions=[
                "stub electronic structure (analytic pair potential) stands in for the SCF; the run loop, writers, checkpoint and resume code are the real ones",
                "row values are compared bitwise with an all-cadences-one reference run of the same seed",
                "screen and checkpoint streams: exactly the positive multiples (no t=0 entry demanded)",
                "nonadiabatic stream: real surface-hopping runs on H2CO (CIS, 2 states), fresh and resumed, values within 1e-6 of the reference",
            ],
        )
    finally:
        common.rm(scratch)
