"""C12 (partial) - Langevin thermostat: operator structure O-(B A F B)-O, two noise draws per step, the
tau = infinity limit equals NVE, T = 0 only removes energy, padding atoms untouched.

TLC checks VVExact with Engine = "lang": c1 in {1, 1/2}, c2 = NoiseAmp/m, noise = TLC-chosen +-1
patterns; OIdentity (c1 = 1, no noise => the O operator is the identity, i.e. the step is the NVE step)
and ODissipates (no noise => O never increases |v|) on every reachable state; the "second O missing"
mutant differs from the real code in the replay.  Exported behaviours are replayed on the real
Molecular_Dynamics_Langevin.run (and the damped XL_BOMD, which inherits the update) with langevin_c1/c2
set to the dyadic values and torch.randn_like returning the pattern: every HDF5 row must equal the
exact rationals, and exactly two draws per step are consumed.  Through the public constructor:
damp = inf reproduces the NVE output bit for bit; Temp = 0 never increases the kinetic energy across
an O operator; padding rows of /velocities stay exactly zero.

Fluctuation-dissipation: TLC checks Thermostat (life cycle of the coefficients on a driver object that is
reconfigured and re-run: CoeffCurrent; the "cached under a key without Temp / masses" deviation is refuted)
and then evaluates its identities on the whole-step velocity map v' = a v + SUM g_k xi_k MEASURED per atom on
the real engines through run() (zero-force stub, selector patterns for torch.randn_like; Langevin, damped
XL-BOMD, damped KSA, surface hopping with damping): SUM g_k^2 = (kT/m)(1 - a^2) to 3e-6 over dt/damp from 1e-4
to 10, all masses of the batches incl. padding rows, temperatures incl. 0 K (no noise, 0 < a <= 1), damp = inf
(a = 1, no noise), on driver objects whose Temp / damp / batch change between runs.
Long-run statistics are monitored: 16 chains on exact springs per engine, mean kinetic temperature of the second halves within
5 standard errors + 1 % of the target."""

import os

import json

from drivers import mdlib, thermo_driver
from harness import common, tlc

from . import vvshared as VS

PROP = "C12"


def public_limits(case):
    """damp=inf == NVE bitwise; Temp=0 dissipates; padding untouched (real run loop, stub ES)."""
    import h5py
    import numpy as np
    import torch

    common.quiet_stdio()
    mdlib.use_stub(True)
    wd = case["workdir"]
    os.makedirs(wd, exist_ok=True)
    out = {}

    def run(engine, tag, **kw):
        c = dict(engine=engine, system="h2o_h2", molid=[0, 1], steps=12, cad=dict(data=1, coordinates=1, velocities=1, forces=1), xyz=0, ckpt=0, print=0, seed=11)
        c.update(kw)
        md, mol, rk = mdlib.build_md(c, os.path.join(wd, tag))
        return md, mol, rk

    md, mol, rk = run("basic", "nve")
    md.run(mol, **rk)
    md, mol, rk = run("langevin", "inf", damp=float("inf"))
    st0 = torch.random.get_rng_state()
    md.run(mol, **rk)
    same = True
    for m in (0, 1):
        with h5py.File(os.path.join(wd, f"nve.{m}.h5")) as a, h5py.File(os.path.join(wd, f"inf.{m}.h5")) as b:
            for k in ("coordinates/values", "velocities/values", "forces/values", "data/thermo/Ek", "data/thermo/Ep"):
                same = same and np.array_equal(a[k][()], b[k][()])
    out["inf_equals_nve_bitwise"] = bool(same)
    # Temp = 0 with user velocities: wrap the thermostat
    md, mol, rk = run("langevin", "t0", damp=5.0, temp=0.0)
    mol.velocities = 0.01 * torch.randn(mol.coordinates.shape, dtype=torch.float64, generator=torch.Generator().manual_seed(3)) * (mol.species > 0).unsqueeze(-1)
    inc = []
    orig = md._apply_langevin_thermostat

    def wrapped(molecule):
        e0 = md._kinetic_energy(molecule).clone()
        orig(molecule)
        inc.append(float((md._kinetic_energy(molecule) - e0).max()))

    md._apply_langevin_thermostat = wrapped
    md.run(mol, **rk)
    out["t0_max_increase"] = max(inc)
    out["t0_calls"] = len(inc)
    # padding rows stay exactly zero for three inheriting engines at finite temperature
    pad = 0.0
    for eng, kw in (("langevin", dict(damp=10.0)), ("xl", dict(damp=10.0, k=4)), ("ksa", dict(damp=10.0, k=3))):
        md, mol, rk = run(eng, "pad_" + eng, temp=400.0, steps=20, **kw)
        md.run(mol, **rk)
        pad = max(pad, float(mol.velocities[1, 2].abs().max()))
    out["padding_motion"] = pad
    return out


def sampling(case):
    """Long thermostatted run on exact springs (stub ES): mean kinetic temperature of the second half of the run."""
    import h5py
    import numpy as np
    import torch

    from drivers import vv_driver
    from drivers.mdlib import MDmod
    from seqm.Molecule import Molecule
    from seqm.seqm_functions.constants import Constants

    common.quiet_stdio()
    MDmod.esdriver = vv_driver.SpringES
    vv_driver.SpringES.K = 0.002      # (amu A/fs^2)/A: fastest mode 0.09 rad/fs
    vv_driver.SpringES.G = (0.0, 0.0, 0.0)
    wd = case["workdir"]
    os.makedirs(wd, exist_ok=True)
    params = mdlib.seqm_params()
    n = 4
    x0 = torch.tensor([[[0.0, 0.0, 0.0], [1.0, 0.0, 0.0], [0.0, 1.0, 0.0], [0.0, 0.0, 1.0]]], dtype=torch.float64)
    mol = Molecule(Constants(), params, x0.clone(), torch.ones(1, n, dtype=torch.int64))
    masses = torch.tensor([1.0, 12.0, 16.0, 2.0], dtype=torch.float64).reshape(1, n, 1)
    mol.mass = masses.clone()
    mol.mass_inverse = 1.0 / masses
    out = {"molid": [0], "prefix": os.path.join(wd, "md"), "print every": 0, "checkpoint every": 0, "xyz": 0, "h5": {"data": 1}}
    kw = dict(seqm_parameters=params, timestep=case["dt"], Temp=case["T"], output=out)
    md = MDmod.Molecular_Dynamics_Langevin(damp=case["damp"], **kw) if case["engine"] == "langevin" else MDmod.XL_BOMD(damp=case["damp"], xl_bomd_params={"k": 3}, **kw)
    rk = {}
    if case.get("com"):
        rk["remove_com"] = (case["com"][0], int(case["com"][1]))
    md.run(mol, steps=case["steps"], seed=case["seed"], **rk)
    with h5py.File(os.path.join(wd, "md.0.h5")) as f:
        T = f["data/thermo/T"][()]
    half = T[len(T) // 2:]
    return {"mean": float(np.mean(half)), "n": int(len(half))}


def thermo_jobs(tier, rng, scratch):
    """Driver objects (engine, dt) x sequences of (batch, Temp, damp) they are run with, one after the other."""
    inf = float("inf")
    systems = ["h2o_h2", "nh3_h2o", "three", "h2co_2"]
    ratios = [1.0e-4, 1.0e-2, 0.05, 0.5, 1.0, 2.0, 4.0, 10.0]
    jobs = []
    engines = [("langevin", {}), ("xl", {}), ("ksa", {}), ("fssh", {"excited_states": {"n_states": 2, "method": "cis"}})]
    for eng, params in engines:
        for dt in (0.05, 0.4, 1.0):
            for rep_ in range(2 if tier == "quick" else 8):
                seq = []
                for n in range(4 if eng != "fssh" else 2):
                    kind = rng.choice(["ratio", "ratio", "ratio", "zero", "inf"]) if n else "ratio"
                    c = dict(system=rng.choice(systems) if eng != "fssh" else rng.choice(["h2co_2", "h2co"]), temp=float(rng.choice([50, 300, 2000])), damp=dt / rng.choice(ratios))
                    if kind == "zero":
                        c["temp"] = 0.0
                    if kind == "inf":
                        c["damp"] = inf
                    seq.append(c)
                # the reuse patterns a cache keyed without Temp / masses gets wrong: same shape, other Temp; same shape, rows swapped
                seq.append(dict(seq[0], temp=0.0))
                seq.append(dict(seq[0], temp=777.0))
                if eng != "fssh":
                    seq.append(dict(system="h2o_h2", temp=300.0, damp=seq[0]["damp"]))
                    seq.append(dict(system="h2_h2o", temp=300.0, damp=seq[0]["damp"]))
                jobs.append(dict(engine=eng, dt=dt, seq=seq, params=params))
    for n, j in enumerate(jobs):
        j["id"] = "t%03d" % n
        j["workdir"] = os.path.join(scratch, "thermo_%03d" % n)
    return jobs


def main(tier):
    rep = common.Reporter(PROP, tier)
    rng = __import__("random").Random(common.seed() + 12)
    scratch = common.scratch_dir("c12")
    try:
        states = trans = 0
        variants = [("half", dict(Engine="lang", C1="half", Steps=2)), ("noise", dict(Engine="lang", C1="half", NoiseAmp=1, Steps=2, PatSet={1, 2})), ("one", dict(Engine="lang", C1="one", Steps=2)),
                    ("one_noise", dict(Engine="lang", C1="one", NoiseAmp=1, Steps=2, PatSet={1}))]
        allrecs = []
        for tag, c in variants:
            r = VS.check(dict(c, Flip=False), scratch)
            states += r.distinct
            trans += r.generated
            if r.error:
                rep.machinery(f"TLC VVExact {tag}: " + r.error[:500])
            elif r.violated:
                rep.violation("model_property_violated", {"variant": tag, "violated": r.violated}, model=True)
            recs, g = VS.export(c, scratch, tag)
            states += g.distinct
            trans += g.generated
            allrecs += recs
        # NVE limit on the model: the c1 = 1, no-noise behaviours coincide with the NVE behaviours step by step
        nve, g = VS.export(dict(Steps=2), scratch, "nve2steps")
        key = lambda rec: common.sha([rec["m"], rec["g"], rec["hist"][0]])  # noqa: E731
        nv = {key(x): [(h["x"], h["v"]) for h in x["hist"]] for x in nve}
        n_lim = 0
        for x in [y for y in allrecs if y["c1"] == "one" and y["amp"] == 0]:
            n_lim += 1
            # exponents differ (9 vs 7 per step): compare as rationals
            a = nv.get(key(x))
            if a is None:
                continue
            for (xa, va), h, hn in zip(a, x["hist"], [z for z in nve if key(z) == key(x)][0]["hist"]):
                s = 2 ** (h["e"] - hn["e"])
                if [[c * s for c in p] for p in xa] != h["x"] or [[c * s for c in p] for p in va] != h["v"]:
                    rep.violation("model_nve_limit_broken", {"masses": x["m"]}, model=True)
                    break
        pick = allrecs if tier == "thorough" else rng.sample(allrecs, min(len(allrecs), 150))
        results = VS.replay_all(pick, scratch, "lang")
        xl = VS.replay_all(rng.sample([x for x in allrecs if x["c1"] == "half"], 12 if tier == "quick" else 100), scratch, "xl", engine_cls="xl")
        n_ok = 0
        samples = []
        for c, res, bad in results + xl:
            if bad:
                rep.violation("real_thermostat_step_differs_from_exact_model", {"masses": c["m"], "c1": c["c1"], "amp": c["amp"], "pat": c["pat"], "engine_cls": c.get("engine_cls", "langevin"), "mismatch": bad},
                              what=bad[0].get("what"), engine_cls=c.get("engine_cls", "langevin"))
            else:
                n_ok += 1
                if len(samples) < 2:
                    samples.append({"masses": c["m"], "c1": c["c1"], "amp": c["amp"], "pat": c["pat"], "v0": c["hist"][0]["v"], "last_exact": c["hist"][-1]})
        pl = common.run_forked([{"workdir": os.path.join(scratch, "pub")}], public_limits, timeout=900)[0]
        lim = {}
        if not pl.get("ok"):
            rep.machinery("public limit runs failed: " + str(pl.get("error")) + str(pl.get("tb"))[-400:])
        else:
            lim = pl["result"]
            if not lim["inf_equals_nve_bitwise"]:
                rep.violation("infinite_damping_differs_from_nve", lim)
            if lim["t0_max_increase"] > 0.0:
                rep.violation("zero_temperature_thermostat_adds_energy", lim)
            if lim["padding_motion"] != 0.0:
                rep.violation("padding_atom_moved_by_thermostat", lim)
        # ---- fluctuation-dissipation on the measured step map -----------------------------------------
        r = tlc.run("Thermostat", dict(spec="Spec", constants=dict(CacheMode="none"), invariants=["CoeffCurrent"]), scratch=scratch)
        states += r.distinct
        trans += r.generated
        if not r.ok:
            rep.machinery("TLC Thermostat: " + str(r.violated or r.error)[:300])
        rm = tlc.run("Thermostat", dict(spec="Spec", constants=dict(CacheMode="keyed"), invariants=["CoeffCurrent"]), scratch=scratch)
        if not rm.violated:
            rep.machinery("vacuity: cached-coefficient deviation not refuted")
        tj = thermo_jobs(tier, rng, scratch)
        tres = common.run_forked(tj, thermo_driver.run_job, timeout=900)
        trecs, tby = [], {}
        for j, rr in zip(tj, tres):
            if not rr.get("ok"):
                rep.violation("thermostat_probe_failed", {"job": {k: v for k, v in j.items() if k != "workdir"}, "error": rr.get("error"), "tb": str(rr.get("tb"))[-300:]}, engine=j["engine"])
                continue
            for rec in rr["result"]:
                trecs.append(rec)
                tby[rec["id"]] = (j, rec)
        tpath = os.path.join(scratch, "thermo.ndjson")
        tlc.write_ndjson(tpath, trecs)
        tt = tlc.run("ThermostatTrace", dict(spec="TSpec", constants=dict(CacheMode="none"), postcondition="Post"), workers=1, env={"TRACE_FILE": tpath}, scratch=scratch, timeout=1800)
        if tt.error:
            rep.machinery("ThermostatTrace: " + tt.error[:600])
        t_ok = t_seen = 0
        worst_fdt = 0
        for ln in tt.stdout.splitlines():
            if ln.startswith('"{'):
                v = json.loads(json.loads(ln))
                t_seen += 1
                j, rec = tby[v["id"]]
                if rec["ratio9"] > 0:
                    worst_fdt = max(worst_fdt, abs(rec["ratio9"] - 1000000000))
                if v["why"] == "-":
                    t_ok += 1
                else:
                    rep.violation("thermostat_map_violates_identity", {"job": {k: x for k, x in j.items() if k != "workdir"}, "record": rec, "identity": v["why"]},
                                  identity=v["why"], engine=j["engine"], run=rec["run"], reused=rec["run"] > 0)
        if t_seen != len(trecs):
            rep.machinery(f"thermostat verdicts for {t_seen} of {len(trecs)} records")
        states += tt.distinct
        trans += tt.generated
        # ---- long-run mean kinetic temperature (statistical, fixed seeds) ------------------------------------------------
        samp_info = []
        sconf = (("langevin", 0.5, 20.0, 300.0, None), ("xl", 0.5, 5.0, 600.0, None), ("langevin", 0.5, 20.0, 300.0, ["linear", 5]), ("langevin", 0.5, 10.0, 400.0, ["angular", 7]))
        if tier == "thorough":
            sconf += (("langevin", 0.25, 2.0, 150.0, None), ("xl", 0.5, 10.0, 300.0, ["linear", 3]))
        for eng, dt, damp, T, com in sconf:
            chains = [dict(engine=eng, dt=dt, damp=damp, T=T, com=com, steps=4000 if tier == "quick" else 16000, seed=1000 * common.seed() + 17 * k + 3, workdir=os.path.join(scratch, "samp_%s_%s_%d" % (eng, "n" if not com else com[0], k))) for k in range(16)]
            sres = common.run_forked(chains, sampling, timeout=1800)
            means = [r["result"]["mean"] for r in sres if r.get("ok")]
            if len(means) < 16:
                rep.machinery("sampling chains failed: " + str([r.get("error") for r in sres if not r.get("ok")][:1]))
                continue
            m = sum(means) / len(means)
            sd = (sum((x - m) ** 2 for x in means) / (len(means) - 1)) ** 0.5
            sem = sd / len(means) ** 0.5
            # allowance: 5 standard errors of the mean of 16 independent chains + 1 % (second-order bias of the splitting at this step size)
            tolT = 5.0 * sem + 0.01 * T
            samp_info.append({"engine": eng, "dt": dt, "damp": damp, "remove_com": com, "target": T, "mean": m, "sem": sem, "tolerance": tolT})
            if not abs(m - T) <= tolT:
                rep.violation("long_run_temperature_differs_from_target", samp_info[-1], engine=eng, identity="sampling")
        cov = {
            "sampling": samp_info,
            "thermostat_maps_measured": len(trecs), "thermostat_maps_consistent": t_ok, "thermostat_jobs": len(tj), "fdt_worst_abs_dev_1e-9": worst_fdt, "fdt_tolerance_1e-9": 3000,
            "states": states, "transitions": trans, "traces_validated_against_impl": len(results) + len(xl) + len(trecs), "behaviours_matching": n_ok,
            "samples": samples or [{"note": "none"}], "public_limits": lim, "model_nve_limit_pairs": n_lim,
            "evaluations": len(results) + len(xl), "distinct_nontrivial": len([1 for c, _, _ in results if c["amp"] or c["c1"] == "half"]),
            "rule": "Langevin behaviours (masses x positions x velocities x field x c1 x noise amplitude x noise pattern) enumerated by TLC; non-trivial = c1 = 1/2 or noise on",
            "exhaustive": tier == "thorough", "tolerance": 1e-11,
        }
        return rep.finish(cov, assumptions=["exact replay: langevin_c1/c2 are set by the driver to dyadic values after initialize", "fluctuation-dissipation: step map measured with zero forces (the map is then affine); kT/m from the driver's own unit literals",
                                            "noise variates replaced by TLC-chosen +-1 patterns"])
    finally:
        common.rm(scratch)
