"""C12 (partial) - Langevin thermostat: operator structure O-(B A F B)-O, two noise draws per step, the
tau = infinity limit equals NVE, T = 0 only removes energy, padding atoms untouched.

TLC checks VVExact with Engine = "lang": c1 in {1, 1/2}, c2 = NoiseAmp/m, noise = TLC-chosen +-1
patterns; OIdentity (c1 = 1, no noise => the O operator is the identity, i.e. the step is the NVE step)
and ODissipates (no noise => O never increases |v|) on every reachable state; the "second O missing"
mutant differs from the real code in the replay.  Exported behaviours are replayed on the real
Molecular_Dynamics_Langevin.run (and the damped XL_BOMD, which inherits the update) with langevin_c1/c2
set to the dyadic values and torch.randn_like returning the pattern: every HDF5 row must equal the
exact rationals, and exactly two draws per step are consumed.  Through the public constructor:
damp = inf reproduces the NVE output bit for bit; Temp = 0 never increases the kinetic energy across
an O operator; padding rows of /velocities stay exactly zero.
Not decided: fluctuation-dissipation identity / canonical sampling (exp, sqrt, statistics)."""

import os

from drivers import mdlib
from harness import common

from . import vvshared as VS

PROP = "C12"


def public_limits(case):
    """damp=inf == NVE bitwise; Temp=0 dissipates; padding untouched (real run loop, stub ES)."""
    import h5py
    import numpy as np
    import torch

    common.quiet_stdio()
    mdlib.use_stub(True)
    wd = case["workdir"]
    os.makedirs(wd, exist_ok=True)
    out = {}

    def run(engine, tag, **kw):
        c = dict(engine=engine, system="h2o_h2", molid=[0, 1], steps=12, cad=dict(data=1, coordinates=1, velocities=1, forces=1), xyz=0, ckpt=0, print=0, seed=11)
        c.update(kw)
        md, mol, rk = mdlib.build_md(c, os.path.join(wd, tag))
        return md, mol, rk

    md, mol, rk = run("basic", "nve")
    md.run(mol, **rk)
    md, mol, rk = run("langevin", "inf", damp=float("inf"))
    st0 = torch.random.get_rng_state()
    md.run(mol, **rk)
    same = True
    for m in (0, 1):
        with h5py.File(os.path.join(wd, f"nve.{m}.h5")) as a, h5py.File(os.path.join(wd, f"inf.{m}.h5")) as b:
            for k in ("coordinates/values", "velocities/values", "forces/values", "data/thermo/Ek", "data/thermo/Ep"):
                same = same and np.array_equal(a[k][()], b[k][()])
    out["inf_equals_nve_bitwise"] = bool(same)
    # Temp = 0 with user velocities: wrap the thermostat
    md, mol, rk = run("langevin", "t0", damp=5.0, temp=0.0)
    mol.velocities = 0.01 * torch.randn(mol.coordinates.shape, dtype=torch.float64, generator=torch.Generator().manual_seed(3)) * (mol.species > 0).unsqueeze(-1)
    inc = []
    orig = md._apply_langevin_thermostat

    def wrapped(molecule):
        e0 = md._kinetic_energy(molecule).clone()
        orig(molecule)
        inc.append(float((md._kinetic_energy(molecule) - e0).max()))

    md._apply_langevin_thermostat = wrapped
    md.run(mol, **rk)
    out["t0_max_increase"] = max(inc)
    out["t0_calls"] = len(inc)
    # padding rows stay exactly zero for three inheriting engines at finite temperature
    pad = 0.0
    for eng, kw in (("langevin", dict(damp=10.0)), ("xl", dict(damp=10.0, k=4)), ("ksa", dict(damp=10.0, k=3))):
        md, mol, rk = run(eng, "pad_" + eng, temp=400.0, steps=20, **kw)
        md.run(mol, **rk)
        pad = max(pad, float(mol.velocities[1, 2].abs().max()))
    out["padding_motion"] = pad
    return out


def main(tier):
    rep = common.Reporter(PROP, tier)
    rng = __import__("random").Random(common.seed() + 12)
    scratch = common.scratch_dir("c12")
    try:
        states = trans = 0
        variants = [("half", dict(Engine="lang", C1="half", Steps=2)), ("noise", dict(Engine="lang", C1="half", NoiseAmp=1, Steps=2, PatSet={1, 2})), ("one", dict(Engine="lang", C1="one", Steps=2)),
                    ("one_noise", dict(Engine="lang", C1="one", NoiseAmp=1, Steps=2, PatSet={1}))]
        allrecs = []
        for tag, c in variants:
            r = VS.check(dict(c, Flip=False), scratch)
            states += r.distinct
            trans += r.generated
            if r.error:
                rep.machinery(f"TLC VVExact {tag}: " + r.error[:500])
            elif r.violated:
                rep.violation("model_property_violated", {"variant": tag, "violated": r.violated}, model=True)
            recs, g = VS.export(c, scratch, tag)
            states += g.distinct
            trans += g.generated
            allrecs += recs
        # NVE limit on the model: the c1 = 1, no-noise behaviours coincide with the NVE behaviours step by step
        nve, g = VS.export(dict(Steps=2), scratch, "nve2steps")
        key = lambda rec: common.sha([rec["m"], rec["g"], rec["hist"][0]])  # noqa: E731
        nv = {key(x): [(h["x"], h["v"]) for h in x["hist"]] for x in nve}
        n_lim = 0
        for x in [y for y in allrecs if y["c1"] == "one" and y["amp"] == 0]:
            n_lim += 1
            # exponents differ (9 vs 7 per step): compare as rationals
            a = nv.get(key(x))
            if a is None:
                continue
            for (xa, va), h, hn in zip(a, x["hist"], [z for z in nve if key(z) == key(x)][0]["hist"]):
                s = 2 ** (h["e"] - hn["e"])
                if [[c * s for c in p] for p in xa] != h["x"] or [[c * s for c in p] for p in va] != h["v"]:
                    rep.violation("model_nve_limit_broken", {"masses": x["m"]}, model=True)
                    break
        pick = allrecs if tier == "thorough" else rng.sample(allrecs, min(len(allrecs), 150))
        results = VS.replay_all(pick, scratch, "lang")
        xl = VS.replay_all(rng.sample([x for x in allrecs if x["c1"] == "half"], 12 if tier == "quick" else 100), scratch, "xl", engine_cls="xl")
        n_ok = 0
        samples = []
        for c, res, bad in results + xl:
            if bad:
                rep.violation("real_thermostat_step_differs_from_exact_model", {"masses": c["m"], "c1": c["c1"], "amp": c["amp"], "pat": c["pat"], "engine_cls": c.get("engine_cls", "langevin"), "mismatch": bad},
                              what=bad[0].get("what"), engine_cls=c.get("engine_cls", "langevin"))
            else:
                n_ok += 1
                if len(samples) < 2:
                    samples.append({"masses": c["m"], "c1": c["c1"], "amp": c["amp"], "pat": c["pat"], "v0": c["hist"][0]["v"], "last_exact": c["hist"][-1]})
        pl = common.run_forked([{"workdir": os.path.join(scratch, "pub")}], public_limits, timeout=900)[0]
        lim = {}
        if not pl.get("ok"):
            rep.machinery("public limit runs failed: " + str(pl.get("error")) + str(pl.get("tb"))[-400:])
        else:
            lim = pl["result"]
            if not lim["inf_equals_nve_bitwise"]:
                rep.violation("infinite_damping_differs_from_nve", lim)
            if lim["t0_max_increase"] > 0.0:
                rep.violation("zero_temperature_thermostat_adds_energy", lim)
            if lim["padding_motion"] != 0.0:
                rep.violation("padding_atom_moved_by_thermostat", lim)
        cov = {
            "states": states, "transitions": trans, "traces_validated_against_impl": len(results) + len(xl), "behaviours_matching": n_ok,
            "samples": samples or [{"note": "none"}], "public_limits": lim, "model_nve_limit_pairs": n_lim,
            "evaluations": len(results) + len(xl), "distinct_nontrivial": len([1 for c, _, _ in results if c["amp"] or c["c1"] == "half"]),
            "rule": "Langevin behaviours (masses x positions x velocities x field x c1 x noise amplitude x noise pattern) enumerated by TLC; non-trivial = c1 = 1/2 or noise on",
            "exhaustive": tier == "thorough", "tolerance": 1e-11,
        }
        return rep.finish(cov, assumptions=["langevin_c1/c2 are set by the driver to dyadic values after initialize; the formulas for c1, c2 themselves (exp, expm1, sqrt) are not decided",
                                            "noise variates replaced by TLC-chosen +-1 patterns"])
    finally:
        common.rm(scratch)
