"""Shared by C05 and C19: TLC on Batch, export, exact index comparison with the real Parser/pack."""
import os

from drivers import batch_driver
from harness import common, tlc

INV = ["P_Transparent", "P_Perm", "P_Pad", "P_Cutoff", "P_Pack"]


def consts(tier):
    if tier == "quick":
        return dict(MaxMol=2, MaxSize=3, Species={1, 8}, Cuts={0, 10, 40}, Seps={8, 500}, FragCuts={0, 25, 56})
    return dict(MaxMol=3, MaxSize=3, Species={1, 6, 8}, Cuts={0, 10, 40}, Seps={8, 50, 500}, FragCuts={0, 25, 56})


def model_check(tier, scratch, invariants=INV):
    return tlc.run("Batch", dict(spec="Spec", constants=consts(tier), invariants=list(invariants)), scratch=scratch, timeout=6000)


def export(tier, scratch):
    out = os.path.join(scratch, "batch.ndjson")
    out2 = os.path.join(scratch, "pack.ndjson")
    c = consts(tier)
    if tier != "quick":
        c["MaxMol"] = 2  # export (single worker) on the two-row lattice; three rows are model-checked only
    r = tlc.run("BatchGen", dict(spec="Spec", constants=c, invariants=["Collect"], postcondition="Post"), workers=1, env={"OUT_FILE": out, "OUT_FILE2": out2}, scratch=scratch, timeout=6000)
    if not os.path.exists(out) or not os.path.exists(out2):
        raise RuntimeError("BatchGen export failed: " + (r.error or r.stdout[-1500:]))
    recs = tlc.read_ndjson(out)
    table = tlc.read_ndjson(out2)[0]["t"]
    return recs, table, r, 5   # PackMax of BatchGen


def index_conformance(recs, nproc=16):
    chunks = [recs[i::nproc] for i in range(nproc)]

    def go(chunk):
        out = []
        for rec in chunk:
            bad = batch_driver.check_index_case(rec)
            if bad:
                out.append({"batch": {"sp": rec["sp"], "cut2": rec["cut2"], "pos": rec["pos"]}, "mismatches": bad[:4]})
        return out

    res = common.run_forked(chunks, go)
    bad = []
    errs = []
    for r in res:
        if r.get("ok"):
            bad += r["result"]
        else:
            errs.append(r.get("error"))
    return bad, errs
