"""C17 (partial) - surface hopping: hop bookkeeping, trivial-crossing permutation, frustrated hop = no change,
per-trajectory isolation, probability bounds, exact energy conservation and smaller-root choice.

TLC checks FSSH (two trajectories, three states; per step and trajectory a TLC-chosen trivial-crossing
permutation, hop target and kinematics with exact rational velocity rescaling): SwapIsPermutation,
FrustratedNoChange, EnergyExact, SmallerRoot, HoldoffBlocksHop, Isolation, PotentialTracksActive - with the
full input set for one step and a reduced set for three steps, decoherence on and off; the shipped
sgn(0) = 0 and a "swap applied to all trajectories" mutant are refuted.  Exported behaviours are replayed
on the real SurfaceHoppingDynamics._after_electronic_update / _attempt_hop / _rescale_velocity_along_nac
(dummy dynamics objects as in the repository's tests; the random draw, the trivial-crossing mask, the
coupling vector and the energy gap are the behaviour's inputs): active state, amplitude slots, hold-off,
previous state, velocities (exact rationals, 1e-12), potential, hop log must equal the model's.
_attempt_hop alone is driven over a dyadic grid (target = first j with cumulative probability >= r after
clamping and the row-sum guard); zero coupling keeps populations exactly.
Not decided: norm preservation of the RK4 amplitude propagation for non-zero coupling."""

import os

from drivers import fssh_driver
from harness import common, tlc

PROP = "C17"
INV = ["PotentialTracksActive"]
PROPS = ["SwapIsPermutation", "FrustratedNoChange", "EnergyExact", "SmallerRoot", "HoldoffBlocksHop", "Isolation"]


def main(tier):
    rep = common.Reporter(PROP, tier)
    rng = __import__("random").Random(common.seed() + 17)
    scratch = common.scratch_dir("c17")
    try:
        states = trans = 0
        base = dict(NTraj=2, NStates=3, Steps=1, Decohere=False, SignZero=1, SwapScope="own", Detect=False, Rich=True)
        variants = [("rich", {}), ("rich+decohere", {"Decohere": True}), ("long", {"Rich": False, "Steps": 3}), ("long+decohere", {"Rich": False, "Steps": 3, "Decohere": True})]
        if tier == "quick":
            variants = []   # quick: the export runs below check the same properties on the exported configurations
        for name, over in variants:
            r = tlc.run("FSSH", dict(spec="Spec", constants=dict(base, **over), invariants=INV, properties=PROPS), scratch=scratch, timeout=3000)
            states += r.distinct
            trans += r.generated
            if r.error:
                rep.machinery(f"TLC FSSH {name}: " + r.error[:400])
            elif r.violated:
                rep.violation("model_property_violated", {"variant": name, "violated": r.violated}, model=True)
        refuted = {}
        for name, over in (("sign_zero_0", {"SignZero": 0}), ("swap_all", {"SwapScope": "all"})):
            rr = tlc.run("FSSH", dict(spec="Spec", constants=dict(base, Rich=False, Steps=2, **over), invariants=INV, properties=PROPS), scratch=scratch, timeout=3000)
            refuted[name] = rr.violated
            if not rr.violated:
                rep.machinery(f"vacuity: {name} not refuted")
        behs = []
        exports = [("rich", {}, 37), ("richd", {"Decohere": True}, 97), ("long2", {"Rich": False, "Steps": 2}, 13), ("long2d", {"Rich": False, "Steps": 2, "Decohere": True}, 29),
                   ("det2", {"Rich": False, "Steps": 2, "Detect": True}, 7),
                   # a single trajectory (buffers cached per batch size behave differently for nmol = 1), several crossings in a row
                   ("solo3", {"NTraj": 1, "Rich": False, "Steps": 3}, 3), ("solodet3", {"NTraj": 1, "Rich": False, "Steps": 3, "Detect": True}, 3)]
        if tier == "thorough":
            exports = [("rich", {}, 5), ("richd", {"Decohere": True}, 11), ("long2", {"Rich": False, "Steps": 2}, 2), ("long2d", {"Rich": False, "Steps": 2, "Decohere": True}, 3),
                       ("long3", {"Rich": False, "Steps": 3}, 499), ("long3d", {"Rich": False, "Steps": 3, "Decohere": True}, 997),
                       ("solo3", {"NTraj": 1, "Rich": False, "Steps": 3}, 1), ("solodet3", {"NTraj": 1, "Rich": False, "Steps": 3, "Detect": True}, 1), ("solo4", {"NTraj": 1, "Rich": False, "Steps": 4}, 7),
                       ("det2", {"Rich": False, "Steps": 2, "Detect": True}, 1), ("det3", {"Rich": False, "Steps": 3, "Detect": True}, 199), ("det3d", {"Rich": False, "Steps": 3, "Detect": True, "Decohere": True}, 499)]
        for name, over, mod in exports:
            out = os.path.join(scratch, f"fssh_{name}.ndjson")
            c = dict(base, **over)
            g = tlc.run("FSSHGen", dict(spec="Spec", constants=dict(c, ExportMod=mod), invariants=["Collect"], postcondition="Export"), workers=1, env={"OUT_FILE": out}, scratch=scratch, timeout=3000, cfg_name="FSSHGen_" + name)
            pr = tlc.run("FSSH", dict(spec="Spec", constants=c, invariants=INV, properties=PROPS), scratch=scratch, timeout=3000)   # same configuration, all cores
            states += pr.distinct
            trans += pr.generated
            if pr.error:
                rep.machinery(f"TLC FSSH {name}: " + pr.error[:400])
            elif pr.violated:
                rep.violation("model_property_violated", {"variant": name, "violated": pr.violated}, model=True)
            states += g.distinct
            trans += g.generated
            if not os.path.exists(out):
                rep.machinery(f"FSSHGen {name} failed: " + (g.error or "")[:300])
                continue
            for b in tlc.read_ndjson(out):
                b["decohere"] = c["Decohere"]
                b["detect"] = c["Detect"]
                behs.append(b)
        chunks = [behs[i::16] for i in range(16)]

        def go(chunk):
            out = []
            for b in chunk:
                bad = fssh_driver.replay(b)
                if bad:
                    out.append({"inputs": [s["in"] for s in b["steps"]], "pre": b["steps"][0]["pre"], "decohere": b["decohere"], "mismatch": bad})
            return out

        res = common.run_forked(chunks, go, timeout=1800)
        nbad = 0
        for rr in res:
            if not rr.get("ok"):
                rep.machinery("fssh replay failed: " + str(rr.get("error")) + str(rr.get("tb"))[-400:])
                continue
            for b in rr["result"]:
                nbad += 1
                m = b["mismatch"][0]
                rep.violation("hop_bookkeeping_differs_from_model", b, what=m.get("what"), decohere=b["decohere"])
        extra = common.run_forked([0], lambda _: {"grid": fssh_driver.attempt_hop_grid(), "norm": fssh_driver.zero_coupling_norm()})[0]
        ex = {}
        if not extra.get("ok"):
            rep.machinery("attempt_hop grid failed: " + str(extra.get("error")) + str(extra.get("tb"))[-300:])
        else:
            ex = extra["result"]
            for b in ex["grid"]:
                rep.violation("hop_selection_differs_from_rule", b, what="attempt_hop")
            if ex["norm"] > 1e-14:
                rep.violation("zero_coupling_changes_populations", {"maxdiff": ex["norm"]}, what="norm")
        # (a) non-zero coupling: the total population drifts only at the order of the integrator (monitored: the drift falls by
        # 2^4 .. 2^5 when the number of sub-steps doubles; classical fourth-order Runge-Kutta on a norm-conserving linear system)
        ncases = [dict(nstates=ns, sub=sub, dt=dt, scale=sc, seed=100 * ns + k, spike=sp) for ns in (2, 3, 4, 5, 6, 7, 8) for sc in (0.05, 0.5, 2.0) for sp in (False, True)
                  for k, (dt, sub) in enumerate(((0.5, 4), (0.1, 2)) if tier == "quick" else ((0.5, 4), (0.1, 2), (1.0, 8), (0.25, 3)))]
        nres = common.run_forked(ncases, fssh_driver.norm_order, timeout=600)
        norm_info = {"cases": len(ncases), "ratios_checked": 0, "ratio_min": 1e9, "ratio_max": 0.0, "largest_drift": 0.0}
        for c, rr in zip(ncases, nres):
            if not rr.get("ok"):
                rep.machinery("norm-order monitor failed: " + str(rr.get("error")))
                continue
            d = [max(x) for x in rr["result"]]
            norm_info["largest_drift"] = max(norm_info["largest_drift"], d[0])
            for a, b in zip(d, d[1:]):
                if b > a and a > 1e-13:
                    rep.violation("population_drift_grows_with_finer_substeps", {"case": c, "drift": d}, what="norm_order", nstates=c["nstates"])
                if b > 1.0e-11 and a < 0.05:           # above round-off, inside the asymptotic regime
                    norm_info["ratios_checked"] += 1
                    norm_info["ratio_min"] = min(norm_info["ratio_min"], a / b)
                    norm_info["ratio_max"] = max(norm_info["ratio_max"], a / b)
                    if a / b < 10.0:          # faster decay is welcome (error terms of different order can cancel)
                        rep.violation("population_drift_not_at_integrator_order", {"case": c, "drift": d, "ratio": a / b}, what="norm_order", nstates=c["nstates"])
        hops = [b for b in behs if any(i["accept"] for s in b["steps"] for i in s["info"])]
        cov = {
            "states": states, "transitions": trans, "traces_validated_against_impl": len(behs), "behaviours_matching": len(behs) - nbad,
            "samples": [{"inputs": [s["in"] for s in b["steps"]], "log": b["log"]} for b in hops[:2]] or [{"note": "none"}],
            "deviations_refuted_on_model": refuted, "zero_coupling_population_change": ex.get("norm"), "population_drift_order": norm_info,
            "evaluations": len(behs), "distinct_nontrivial": len([b for b in behs if b["log"]]),
            "rule": "behaviours exported from TLC (every ExportMod-th terminal state of four FSSH configurations); non-trivial = at least one hop-log event", "exhaustive": False,
        }
        return rep.finish(cov, assumptions=["one atom per trajectory, masses {1,2}, integer velocity/coupling vectors, at most one accepted stochastic hop per trajectory (exact arithmetic)",
                                            "the hold-off tick of _do_integrator_step is performed by the driver", "non-zero coupling: the order of the population drift is a monitored numeric predicate (the drift falls by at least 10 per doubling of the sub-steps)"])
    finally:
        common.rm(scratch)
