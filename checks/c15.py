"""C15 - results depend only on the call's inputs, not on process history or threads.

1. TLC checks Session (hidden process state: SCF class attributes, sticky `elements` in the
   caller's dict, pending autograd graphs) over all call histories up to MaxLen drawn from a
   heterogeneous job pool: InputsOnlyForward, InputsOnlyBackward, DictStable on the design
   constants; the two shipped deviations (backward reads class attributes; elements sticky)
   must be refuted as spec mutants.
2. Spec -> code: the histories are exported (SessionGen) with the hidden state the model expects
   after every prefix; sampled histories are executed in one forked child each on the real API;
   after EVERY action the real hidden state (SCF class attributes, `elements` of every dict,
   pending graphs, torch default dtype / grad mode / threads) must equal the model's, and every
   job's outputs (energies, forces, charges, gap, CIS energies, MD phase point, parameter-free
   gradients of summed losses) must equal, bitwise, those of the same job run first in a fresh
   process.
3. Thread counts 2/4/16 vs 1 for a forward job (tolerance 1e-9).
"""

import json
import os

from drivers import session_driver
from harness import common, tlc

PROP = "C15"
INV = ["InputsOnlyForward", "InputsOnlyBackward", "DictStable"]


def key(hist):
    return json.dumps([[a["op"], a["job"] if a["op"] == "fwd" else sorted(a["jobs"])] for a in hist])


def maxdiff(a, b):
    if a is None or b is None:
        return 0.0 if a == b else float("inf")
    if len(a) != len(b):
        return float("inf")
    return max([abs(x - y) for x, y in zip(a, b)] or [0.0])


def main(tier):
    rep = common.Reporter(PROP, tier)
    rng = __import__("random").Random(common.seed() + 15)
    scratch = common.scratch_dir("c15")
    states = trans = 0
    try:
        L = 4
        r = tlc.run("Session", dict(spec="Spec", constants=dict(MaxLen=L + (0 if tier == "quick" else 1), BackwardReads="ctx", ElementsMode="extend"), invariants=INV), scratch=scratch, timeout=3000)
        states += r.distinct
        trans += r.generated
        if r.error:
            rep.machinery("TLC Session: " + r.error[:500])
        elif r.violated:
            rep.violation("model_property_violated", {"violated": r.violated, "cex": r.counterexample[-1:]}, model=True)
        refuted = {}
        for br, em in (("class", "extend"), ("ctx", "sticky")):
            rr = tlc.run("Session", dict(spec="Spec", constants=dict(MaxLen=4, BackwardReads=br, ElementsMode=em), invariants=INV), scratch=scratch)
            refuted[f"{br}/{em}"] = rr.violated
            if not rr.violated:
                rep.machinery(f"vacuity: deviation {br}/{em} not refuted")
        out = os.path.join(scratch, "sess.ndjson")
        # the export runs on one worker and grows quadratically with the number of histories: length 3 in the quick tier
        # (the fixed histories of length 4 get their expected states from SessionTrace below)
        LG = L - 1 if tier == "quick" else L
        g = tlc.run("SessionGen", dict(spec="Spec", constants=dict(MaxLen=LG, BackwardReads="ctx", ElementsMode="extend"), invariants=["Collect"], postcondition="Export"),
                    workers=1, env={"OUT_FILE": out}, scratch=scratch, timeout=3000)
        if not os.path.exists(out):
            rep.machinery("SessionGen export failed: " + (g.error or "")[:500])
            return rep.finish({"states": max(states, 1), "transitions": max(trans, 1), "traces_validated_against_impl": 0, "samples": [{}]})
        states += g.distinct
        trans += g.generated
        recs = tlc.read_ndjson(out)
        model = {key(rr["hist"]): rr for rr in recs}
        full = [rr for rr in recs if len(rr["hist"]) == LG]
        interesting = [rr for rr in full if any(a["op"] == "bwd" for a in rr["hist"]) or len({session_driver.JOBS[a["job"]]["dict"] for a in rr["hist"] if a["op"] == "fwd"}) < len([a for a in rr["hist"] if a["op"] == "fwd"])]
        n = 60 if tier == "quick" else 900
        must_keys = [
            [["fwd", "tight"], ["fwd", "loose"], ["bwd", ["loose", "tight"]]],
            [["fwd", "tight"], ["fwd", "nh3A"], ["fwd", "h2oA"]],
            [["fwd", "radA"], ["fwd", "h2oA"], ["fwd", "tight"]],
            [["fwd", "mdF"], ["fwd", "cisC"], ["fwd", "uhfD"]],
        ]
        must_keys = [k + [["fwd", "h2oA"]] for k in must_keys] + [
            [["fwd", "tight"], ["bwd", ["tight"]], ["fwd", "loose"], ["bwd", ["loose"]]],
            [["fwd", "loose"], ["bwd", ["loose"]], ["fwd", "tight"], ["bwd", ["tight"]]],
            [["fwd", "dispG"], ["fwd", "dispH"], ["fwd", "dispG"], ["fwd", "h2oA"]],
            [["fwd", "dispH"], ["fwd", "dispG"], ["fwd", "dispH"], ["fwd", "cisC"]],
            [["fwd", "tight"], ["fwd", "tight"], ["bwd", ["tight"]], ["fwd", "nh3A"]],
            [["fwd", "farI"], ["fwd", "cisC"], ["fwd", "farI"], ["fwd", "h2oA"]],          # far pairs: nothing may depend on what the allocator hands back
            [["fwd", "h2oA"], ["fwd", "farI"], ["fwd", "mdF"], ["fwd", "farI"]],
            [["fwd", "uhfJ"], ["fwd", "tight"], ["bwd", ["tight"]], ["fwd", "h2oA"]],       # a call refused inside the solver leaves no trace (grad mode, class state)
            [["fwd", "h2oA"], ["fwd", "uhfJ"], ["fwd", "h2oA"], ["fwd", "loose"]],
            [["fwd", "mdF"], ["fwd", "uhfsK"], ["fwd", "mdL1"], ["fwd", "uhfsK"]],          # seeding events before an unrestricted singlet
            [["fwd", "mdL1"], ["fwd", "mdL2"], ["fwd", "mdL1"], ["fwd", "h2oA"]],           # one MD driver object, different runs
            [["fwd", "mdL2"], ["fwd", "mdL1"], ["fwd", "mdL2"], ["fwd", "uhfsK"]],
        ]
        # expected hidden states of the fixed histories: walked through the model by TLC (SessionTrace)
        mt = [{"id": "m%03d" % mi, "hist": [{"op": a[0], "job": a[1] if a[0] == "fwd" else "-", "jobs": [] if a[0] == "fwd" else list(a[1])} for a in k]} for mi, k in enumerate(must_keys)]
        mpath = os.path.join(scratch, "must.ndjson")
        tlc.write_ndjson(mpath, mt)
        tm = tlc.run("SessionTrace", dict(spec="TSpec", constants=dict(MaxLen=10, BackwardReads="ctx", ElementsMode="extend"), constraint="Track", postcondition="Post"), workers=1, env={"TRACE_FILE": mpath}, scratch=scratch, timeout=900)
        if tm.error:
            rep.machinery("SessionTrace: " + tm.error[:500])
        states += tm.distinct
        trans += tm.generated
        walked = {}
        for ln in tm.stdout.splitlines():
            if ln.startswith('"{'):
                v = json.loads(json.loads(ln))
                walked[v["id"]] = v["recs"]
        for tr in mt:
            rs = walked.get(tr["id"], [])
            if len(rs) != len(tr["hist"]):
                rep.machinery(f"SessionTrace walked {len(rs)} of {len(tr['hist'])} actions of a fixed history: {tr['hist']}")
                continue
            for plen in range(1, len(tr["hist"]) + 1):
                model[key(tr["hist"][:plen])] = dict(rs[plen - 1], hist=tr["hist"][:plen])
        must = [model[key(tr["hist"])] for tr in mt if key(tr["hist"]) in model]
        pick = must + common_sample(rng, [h for h in interesting if h not in must], n * 2 // 3) + common_sample(rng, full, n // 3)
        cases = [{"id": "h%04d" % i, "hist": h["hist"], "workdir": os.path.join(scratch, "w%04d" % i)} for i, h in enumerate(pick)]
        # references: each job first in a fresh process (+ its own backward)
        refcases = []
        for j in sorted(session_driver.JOBS):
            hist = [{"op": "fwd", "job": j, "jobs": []}]
            if session_driver.JOBS[j].get("out") == "gap":
                hist.append({"op": "bwd", "job": "-", "jobs": [j]})
            refcases.append({"id": "ref_" + j, "hist": hist, "workdir": os.path.join(scratch, "ref_" + j)})
        thr = [{"id": "thr%d" % t, "hist": [{"op": "fwd", "job": "h2oA", "jobs": []}, {"op": "fwd", "job": "cisC", "jobs": []}, {"op": "fwd", "job": "benzM", "jobs": []}], "threads": t, "workdir": os.path.join(scratch, "thr%d" % t)} for t in (1, 2, 4, 8, 16)]
        allres = common.run_forked(refcases + thr + cases, session_driver.replay, timeout=1200)
        refres, thrres, res = allres[: len(refcases)], allres[len(refcases) : len(refcases) + len(thr)], allres[len(refcases) + len(thr) :]
        ref = {}
        for c, rr in zip(refcases, refres):
            if not rr.get("ok"):
                rep.machinery(f"reference {c['id']} failed: {rr.get('error')}")
                continue
            j = c["id"][4:]
            rs = rr["result"]["recs"]
            ref[j] = {"fwd": rs[0], "grad": rs[1]["grads"][j] if len(rs) > 1 and rs[1]["status"] == "ok" else None}
        n_ok = 0
        worst = 0.0
        samples = []
        for c, rr in zip(cases, res):
            if not rr.get("ok"):
                rep.machinery(f"history {c['id']} failed: {rr.get('error')} {str(rr.get('tb'))[-300:]}")
                continue
            bad = False
            for k, a in enumerate(rr["result"]["recs"]):
                m = model[key(c["hist"][: k + 1])]
                hid = a["hidden"]
                exp_hidden = {"scfcls": m["scfcls"], "delems": {d: sorted(v) for d, v in m["delems"].items()}, "pending": sorted(m["pending"])}
                got_hidden = {"scfcls": hid["scfcls"], "delems": hid["delems"], "pending": a["pending"]}
                fields = dict(op=a["op"], job=a.get("job"), step=k)
                if got_hidden != exp_hidden:
                    bad = True
                    rep.violation("hidden_state_differs_from_model", {"history": c["hist"], "after_action": k, "expected": exp_hidden, "observed": got_hidden, "status": a["status"], "error": a.get("error")}, **fields)
                if hid["dtype"] != "torch.float64" or not hid["grad"] or hid["threads"] != 1:
                    bad = True
                    rep.violation("torch_global_changed", {"history": c["hist"], "after_action": k, "hidden": hid}, **fields)
                if a["op"] == "fwd":
                    j = a["job"]
                    want_fail = bool(session_driver.JOBS[j].get("fails"))
                    if (a["status"] == "raised") != want_fail:
                        bad = True
                        rep.violation("job_outcome_depends_on_history", {"history": c["hist"], "after_action": k, "job": j, "status": a["status"], "error": a.get("error")}, **fields)
                    elif not want_fail and j in ref:
                        for name, val in a["out"].items():
                            d = maxdiff(val, ref[j]["fwd"]["out"].get(name))
                            worst = max(worst, d if d != float("inf") else 0.0)
                            if d > 0.0:
                                bad = True
                                rep.violation("result_depends_on_history", {"history": c["hist"], "after_action": k, "job": j, "output": name, "maxdiff": d}, output=name, **fields)
                else:
                    if a["status"] != "ok":
                        bad = True
                        rep.violation("backward_failed", {"history": c["hist"], "after_action": k, "error": a.get("error")}, **fields)
                        continue
                    for j, gv in a["grads"].items():
                        d = maxdiff(gv, ref[j]["grad"]) if j in ref else 0.0
                        worst = max(worst, d if d != float("inf") else 0.0)
                        if d > 1e-12:
                            bad = True
                            rep.violation("gradient_depends_on_history", {"history": c["hist"], "after_action": k, "job": j, "maxdiff": d, "summed_with": a["jobs"]}, job_b=j, n_summed=len(a["jobs"]), **{kk: vv for kk, vv in fields.items() if kk != "job"})
            if not bad:
                n_ok += 1
                if len(samples) < 3:
                    samples.append({"history": c["hist"], "hidden_after_last": rr["result"]["recs"][-1]["hidden"]})
        # threads
        thr_dev = 0.0
        if all(x.get("ok") for x in thrres):
            base = thrres[0]["result"]["recs"]
            for x in thrres[1:]:
                for a, b in zip(base, x["result"]["recs"]):
                    for name, val in a.get("out", {}).items():
                        thr_dev = max(thr_dev, maxdiff(val, b["out"].get(name)))
            if thr_dev > 1e-9:
                rep.violation("result_depends_on_thread_count", {"maxdiff": thr_dev})
        else:
            rep.machinery("thread runs failed: " + str([x.get("error") for x in thrres]))
        dirty = sorted({d for rr in res if rr.get("ok") for a in rr["result"]["recs"] for d in a["hidden"]["dirty_defaults"]})
        cov = {
            "states": states,
            "transitions": trans,
            "traces_validated_against_impl": len(cases),
            "histories_conforming": n_ok,
            "samples": samples or [{"note": "none"}],
            "history_length": L,
            "histories_exported": len(full),
            "deviations_refuted_on_model": refuted,
            "largest_deviation_from_fresh_process": worst,
            "thread_count_deviation": thr_dev,
            "observed_shared_default_dicts": dirty[:8],
            "evaluations": len(cases),
            "distinct_nontrivial": len({key(c["hist"]) for c in cases if len({a["job"] for a in c["hist"]}) > 1}),
            "rule": "histories of length L exported from TLC (SessionGen); non-trivial = at least two different jobs; sampled by VERIF_SEED with four fixed histories (tight/loose summed backward, dict reuse with a new element, failed call then reuse, MD/CIS/UHF chain)",
            "exhaustive": False,
        }
        return rep.finish(cov, assumptions=["job pool of 16 heterogeneous jobs on small molecules; intra-op threads set to 1 for bitwise comparison",
                                            "shared mutable default dicts (learned_parameters=dict()) are observed to accumulate keys; they are overwritten before being read (checked through the result comparison), not modelled as hidden state",
                                            "one driver object per settings dict, re-used across the calls of a history while the dict's element list and the job's declared settings are unchanged"])
    finally:
        common.rm(scratch)


def common_sample(rng, items, n):
    items = list(items)
    return items if len(items) <= n else rng.sample(items, n)
