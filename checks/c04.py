"""C04 (partial) - the SCF answer does not depend on which solver path produced it.

Decided: (a) every solver configuration / start density / restart history reaches the same result class per
geometry: TLC enumerates the walks of SCFHistory (sequences of solves over neighbouring geometries x start
density {cold, density of the previous solve, perturbed} x solver configuration incl. RHF vs UHF singlet, SP2 thresholds down to below the floor);
PathIndependent holds on the model given C03's FlagTruthful and the premise of a single stable closed-shell
solution.  The exported walks are replayed on the real code (H2O, CH4, H2CO, NH3 alone and as rows of mixed batches whose
rows converge at different iterations); all unflagged solves of the same row at the same
geometry must agree in energy, forces, charges and occupied orbital energies within K*max(eps_i, eps_j)
(K solver-aware, calibrated).  Every solve is also a C03 instance (residual predicates there).
(b) is monitored: along a ladder of thresholds 1e-4 .. 1e-10 (seven solver families, cold starts) the deviation of energy and
forces from the common limit never grows beyond max(previous deviation, K * new threshold).  This rule is what "monotone"
can mean for iterative solvers that stop at the first iterate inside the threshold; strict monotonicity of every digit is
not demanded."""

import os

from drivers import hist_driver
from harness import common, tlc

PROP = "C04"
K = {"Etot": 50.0, "force": 2.0e4, "q": 5.0e3, "e_occ": 1.0e4}
FLOOR = {"Etot": 1e-9, "force": 1e-7, "q": 1e-8, "e_occ": 1e-8}


LADDER = (1.0e-4, 1.0e-6, 1.0e-8, 1.0e-10)


def ladder(case):
    """One molecule, one solver family, thresholds tightened step by step from a cold start: deviation of energy / forces from
    the common limit (adaptive mixing at 1e-12)."""
    import torch

    from drivers import mdlib, scf_driver
    from seqm.ElectronicStructure import Electronic_Structure

    mdlib.use_stub(False)
    common.quiet_stdio()

    def solve(cfg, eps):
        p = mdlib.seqm_params(scf_eps=eps, **cfg)
        mol = scf_driver.make([case["mol"]], p, displace=0.06)
        mol.verbose = False
        es = Electronic_Structure(p)
        es(mol)
        return float(mol.Etot[0]), mol.force[0].detach().clone(), bool(es.notconverged.any())

    E0, F0, _ = solve(dict(scf_converger=[1]), 1.0e-12)
    out = []
    for eps in LADDER:
        cfg = dict(case["cfg"])
        if cfg.get("sp2"):
            # purification threshold tied to the SCF threshold, as a user would: kept at the floor or allowed to go below it
            cfg["sp2"] = [True, eps if cfg["sp2"][1] == "tied" else max(eps * 10, 1e-7)]
        E, F, flag = solve(cfg, eps)
        out.append({"eps": eps, "dE": abs(E - E0), "dF": float((F - F0).abs().max()), "flag": flag})
    return out


def main(tier):
    rep = common.Reporter(PROP, tier)
    rng = __import__("random").Random(common.seed() + 4)
    scratch = common.scratch_dir("c04")
    try:
        cfgs = set(hist_driver.CONFIGS)
        consts = dict(Geoms={0, 1}, Configs=cfgs, MaxLen=2, MayFlag=True)
        r = tlc.run("SCFHistory", dict(spec="Spec", constants=consts, invariants=["PathIndependent"]), scratch=scratch)
        if not r.ok:
            rep.machinery("TLC SCFHistory: " + str(r.violated or r.error)[:300])
        out = os.path.join(scratch, "walks.ndjson")
        g = tlc.run("SCFHistoryGen", dict(spec="Spec", constants=dict(consts, MayFlag=False), invariants=["Collect"], postcondition="Export"), workers=1, env={"OUT_FILE": out}, scratch=scratch)
        walks = [w["walk"] for w in tlc.read_ndjson(out)]
        n = 40 if tier == "quick" else 600
        pick = rng.sample(walks, min(n, len(walks)))
        # make sure every configuration is used at geometry 0 from a cold start at least once
        for c in sorted(cfgs):
            pick.append([{"g": 0, "start": "cold", "cfg": c, "flagged": False}, {"g": 1, "start": "prev", "cfg": c, "flagged": False}])
        cases = [dict(mol=m, walk=w) for m in (("h2o", "ch4") if tier == "quick" else ("h2o", "ch4", "h2co", "nh3")) for w in pick]
        # mixed batches (rows converge at different iterations, different occupation counts): every configuration, cold and restarted
        for mates, m in ((["h2o"], "h2co"), (["h2"], "h2co"), (["h2co"], "h2o"), (["h2", "ch4"], "nh3"), (["ch4"], "h2"), (["c2h4"], "hf")) if tier == "thorough" else ((["h2o"], "h2co"), (["h2"], "ch4"), (["ch4"], "h2"), (["c2h4"], "hf")):
            for c in sorted(cfgs):
                if c.startswith("ksa") and "h2" in mates + [m]:
                    continue        # Krylov rank must not exceed the number of occupied x virtual pairs (1 for H2)
                cases.append(dict(mol=m, mates=mates, walk=[{"g": 0, "start": "cold", "cfg": c, "flagged": False}, {"g": 1, "start": "prev", "cfg": c, "flagged": False}]))
        res = common.run_forked(cases, hist_driver.run_walk, timeout=900)
        byg = {}
        n_solves = 0
        for c, rr in zip(cases, res):
            if not rr.get("ok"):
                rep.machinery(f"walk failed: {rr.get('error')}")
                continue
            for rec in rr["result"]:
                n_solves += 1
                if "error" in rec:
                    rep.violation("solve_raised", {"mol": c["mol"], "walk": c["walk"], "solve": rec}, cfg=rec["cfg"], start=rec["start"])
                    continue
                for m, row in enumerate(rec["rows"]):
                    if row["flag"]:
                        continue
                    byg.setdefault(("+".join(c.get("mates", []) + [c["mol"]]) + "#%d" % m, rec["g"]), []).append(dict(row, cfg=rec["cfg"], start=rec["start"], eps=rec["eps"], g=rec["g"]))
        worst = {k: 0.0 for k in K}
        n_pairs = 0
        for (mol, gi), recs in byg.items():
            ref = min(recs, key=lambda x: x["eps"])     # tightest solve as the representative of the class
            for rec in recs:
                n_pairs += 1
                eps = max(rec["eps"], ref["eps"])
                for name in K:
                    a, b = rec[name], ref[name]
                    d = abs(a - b) if isinstance(a, float) else max(abs(x - y) for x, y in zip(a, b))
                    bound = K[name] * eps + FLOOR[name]
                    worst[name] = max(worst[name], d / bound)
                    if d > bound:
                        rep.violation("result_depends_on_solver_path", {"mol": mol, "geometry": gi, "output": name, "difference": d, "bound": bound, "solve": {k: rec[k] for k in ("cfg", "start", "eps")},
                                                                        "reference": {k: ref[k] for k in ("cfg", "start", "eps")}}, output=name, cfg=rec["cfg"], start=rec["start"])
        # ---- (b) monitored: tightening the threshold moves the result toward the common limit ----------------------------------
        fams = {"mix03": dict(scf_converger=[0, 0.3]), "adapt": dict(scf_converger=[1]), "pulay": dict(scf_converger=[2]), "adapt_sp2": dict(scf_converger=[1], sp2=[True, 1e-5]), "mix_sp2_tied": dict(scf_converger=[0, 0.3], sp2=[True, "tied"]),
                "uhf_adapt": dict(scf_converger=[1], UHF=True), "ksa": dict(scf_converger=[3, {"max_rank": 3, "err_threshold": 0.0, "T_el": 1500.0}])}
        lcases = [dict(mol=m, fam=f, cfg=c) for m in (("h2o", "h2co") if tier == "quick" else ("h2o", "h2co", "ch4", "nh3", "c2h4")) for f, c in fams.items()]
        lres = common.run_forked(lcases, ladder, timeout=900)
        ladder_worst = 0.0
        for c, rr in zip(lcases, lres):
            if not rr.get("ok"):
                rep.machinery("threshold ladder failed: " + str(rr.get("error")))
                continue
            ser = rr["result"]
            for a, b in zip(ser, ser[1:]):
                if a["flag"] or b["flag"]:
                    continue
                for name, kk, fl in (("dE", K["Etot"], FLOOR["Etot"]), ("dF", K["force"], FLOOR["force"])):
                    bound = max(a[name] * (1.0 + 1.0e-6) + 1.0e-12, kk * b["eps"] + fl)       # no farther from the limit than before, or already inside the band of the new threshold
                    ladder_worst = max(ladder_worst, b[name] / bound)
                    if b[name] > bound:
                        rep.violation("tightening_moves_result_away_from_limit", {"mol": c["mol"], "solver": c["fam"], "output": name, "thresholds": [a["eps"], b["eps"]], "deviation": [a[name], b[name]], "bound": bound, "series": ser},
                                      output="ladder_" + name, cfg=c["fam"], start="cold")
        cov = {
            "threshold_ladders": len(lcases), "ladder_worst_deviation_over_bound": ladder_worst,
            "states": r.distinct + g.distinct, "transitions": r.generated + g.generated, "traces_validated_against_impl": len(cases), "solves": n_solves, "class_comparisons": n_pairs,
            "samples": [{"mol": c["mol"], "walk": c["walk"]} for c in cases[:2]], "calibration_largest_difference_over_bound": worst, "walks_exported": len(walks),
            "evaluations": len(cases), "distinct_nontrivial": len({common.sha([c["mol"], c["walk"]]) for c in cases if any(s["start"] != "cold" for s in c["walk"])}),
            "rule": "walks of length 2 over 2 geometries x 3 start densities x 16 solver configurations exported by TLC, sampled by VERIF_SEED plus one cold+prev walk per configuration; non-trivial = some solve restarts from a previous or perturbed density", "exhaustive": False,
            "bounds": {"K": K, "FLOOR": FLOOR},
        }
        return rep.finish(cov, assumptions=["premise of the property: single stable closed-shell solution (small near-equilibrium molecules)", "constants K calibrated, not derived", "monotone approach under tightening: monitored with the max(previous, K*eps) rule"])
    finally:
        common.rm(scratch)
