"""C14 (partial) - reported observables are mutually consistent.

Decided: dipole translation behaviour (invariant for neutral molecules, shift = charge x displacement for ions), Etot = Eelec + Enuc (+ active excitation energy), Hf = Etot - Eiso + atomic heats (the spec's own
MOPAC table), gap = LUMO - HOMO of ascending orbital energies (per spin for UHF), charges sum to the
molecular charge and follow from the density diagonal, electron count; and the currency of every
published attribute (all from the same call); every reported (orbital, energy) pair is an eigenpair of the Fock matrix the
solver returned; the dipole equals the one implied by the published charges, coordinates and density (point charges + s-p
hybridisation), turns with the molecule and shifts by charge x displacement.

TLC checks Publish (paths x published attribute sets, generation stamps: Current) and then evaluates
the linear identities of Publish on fixed-point integers (1e-6 eV / 1e-6 e) logged from the real API
after the SECOND of two calls on the same molecule object at different geometries (so a stale attribute
breaks an identity or the currency rule): jobs = molecules/ions/padded batches x methods x solvers x
RHF/UHF x CIS/RPA active states x XL-BOMD path."""

import json
import os

from drivers import publish_driver
from harness import common, tlc

PROP = "C14"


def jobs(tier, rng):
    out = []
    for mols in (["h2o"], ["nh3"], ["ch4", "h2o"], ["oh-"], ["nh4+", "hf"], ["h2co"], ["c2h4", "h2"]):
        for method in ("AM1", "PM3", "MNDO", "PM6_SP"):
            for conv in ([1], [2], [0, 0.3]):
                out.append(dict(mols=mols, path="scf", params=dict(method=method, scf_converger=conv, scf_eps=1e-8)))
    for mols in (["ch3"], ["ch2t"], ["ch3", "ch2t"]):
        for method in ("AM1", "PM3"):
            out.append(dict(mols=mols, path="uhf", params=dict(method=method, scf_converger=[1], scf_eps=1e-8, UHF=True)))
    for mols in (["h2co"], ["h2co", "h2co"], ["c2h4"]):
        for meth in ("cis", "rpa"):
            for act in (0, 1, 2, 3):
                out.append(dict(mols=mols, path="scf_exc", params=dict(scf_converger=[1], scf_eps=1e-8, excited_states={"n_states": 3, "method": meth}, active_state=act)))
    for mols in (["h2o"], ["nh3"], ["h2co"], ["h2o", "h2co"], ["h2co", "h2o"], ["oh-", "h2co"], ["h2co", "nh4+"]):
        out.append(dict(mols=mols, path="scf", second="rotate", params=dict(method="AM1", scf_converger=[1], scf_eps=1e-8)))
    # a driver object that served another batch of the same padded shape before (other elements, other row order)
    for mols, warm in ((["nh3"], ["h2co"]), (["h2co"], ["nh3"]), (["h2o", "h2co"], ["h2co", "h2o"]), (["h2co", "h2o"], ["h2o", "h2co"]), (["hf"], ["h2"]), (["oh-", "h2co"], ["h2co", "oh-"])):
        for method in ("AM1", "PM3"):
            out.append(dict(mols=mols, warm=warm, path="scf", params=dict(method=method, scf_converger=[1], scf_eps=1e-8)))
    # one active state per molecule, ground and excited rows mixed, on the paths that do not use the analytical gradient
    for acts in ([0, 2, 1], [1, 0, 0], [0, 0, 3], [2, 2, 0]):
        for extra in (dict(scf_backward=1), dict(scf_backward=2)):      # (the analytical-gradient path refuses ground / excited mixes)
            out.append(dict(mols=["h2co", "h2co", "h2co"], path="scf_exc", params=dict(scf_converger=[1], scf_eps=1e-8, excited_states={"n_states": 3, "method": "cis"}, active_state=acts, **extra)))
    # forces of every state requested
    for mols in (["h2co"], ["h2co", "h2co"]):
        for act in (0, 1, 2):
            out.append(dict(mols=mols, path="scf_exc", allforces=True, params=dict(scf_converger=[1], scf_eps=1e-9, excited_states={"n_states": 2, "method": "cis"}, active_state=act, do_all_forces=True, analytical_gradient=[True])))
    # all rows excited, on different states: the analytical-gradient path
    for acts in ([1, 2, 3], [2, 1, 1], [3, 3, 1]):
        for meth in ("cis", "rpa"):
            out.append(dict(mols=["h2co", "h2co", "h2co"], path="scf_exc", params=dict(scf_converger=[1], scf_eps=1e-8, excited_states={"n_states": 3, "method": meth}, active_state=acts)))
    for mols in (["h2o"], ["ch4", "h2o"], ["nh3"]):
        out.append(dict(mols=mols, path="xl", params=dict(scf_converger=[1], scf_eps=1e-9)))
    if tier == "quick":
        must = [j for j in out if j.get("second") == "rotate" or j.get("warm") or j.get("allforces") or isinstance(j["params"].get("active_state"), list)] + [j for j in out if j["path"] == "scf_exc" and j["params"]["active_state"] == 3 and j["mols"] == ["h2co"]]
        out = must + rng.sample([j for j in out if j not in must], 36)
    for n, j in enumerate(out):
        j["id"] = "p%04d" % n
    return out


def main(tier):
    rep = common.Reporter(PROP, tier)
    rng = __import__("random").Random(common.seed() + 14)
    scratch = common.scratch_dir("c14")
    try:
        r = tlc.run("Publish", dict(spec="Spec", properties=["Current"]), scratch=scratch)
        if not r.ok:
            rep.machinery("TLC Publish: " + str(r.violated or r.error)[:300])
        js = jobs(tier, rng)
        res = common.run_forked(js, publish_driver.run_job, timeout=900)
        recs = []
        byid = {}
        for j, rr in zip(js, res):
            if not rr.get("ok"):
                rep.violation("job_failed", {"job": j, "error": rr.get("error"), "tb": str(rr.get("tb"))[-300:]}, path=j["path"], method=j["params"].get("method", "AM1"))
                continue
            for rec in rr["result"]:
                recs.append(rec)
                byid[rec["id"]] = (j, rec)
        path = os.path.join(scratch, "publish.ndjson")
        tlc.write_ndjson(path, recs)
        tr = tlc.run("PublishTrace", dict(spec="TSpec", postcondition="Post"), workers=1, env={"TRACE_FILE": path}, scratch=scratch, timeout=1800)
        if tr.error:
            rep.machinery("PublishTrace: " + tr.error[:600])
        n_ok = 0
        seen = 0
        for ln in tr.stdout.splitlines():
            if ln.startswith('"{'):
                v = json.loads(json.loads(ln))
                seen += 1
                j, rec = byid[v["id"]]
                if v["why"] == "-":
                    n_ok += 1
                else:
                    rep.violation("published_values_inconsistent", {"job": j, "record": rec, "identity": v["why"]}, identity=v["why"], path=j["path"], method=j["params"].get("method", "AM1"), uhf=bool(j["params"].get("UHF")))
        if seen != len(recs):
            rep.machinery(f"verdicts for {seen} of {len(recs)} records")
        cov = {
            "states": r.distinct + tr.distinct, "transitions": r.generated + tr.generated, "traces_validated_against_impl": len(recs), "records_consistent": n_ok,
            "samples": [{k: v for k, v in x.items() if k not in ("emo",)} for x in recs[:2]] or [{"note": "none"}],
            "evaluations": len(recs), "distinct_nontrivial": len({common.sha([byid[x["id"]][0]["mols"], byid[x["id"]][0]["params"], byid[x["id"]][0]["path"]]) for x in recs}),
            "rule": "one record per molecule of every job (molecule set x method x solver x spin x excited method/active state x path); distinct by job", "exhaustive": tier == "thorough",
            "units": "1e-6 eV / 1e-6 e; rounding allowances: 3 (energy sums), 3+natoms (heat), 2 (gap), natoms (charge sum), 4 (per-atom charge)",
        }
        return rep.finish(cov, assumptions=["identities are evaluated by TLC on integers logged from the attributes after the second of two calls on one molecule object",
                                            "the Fock matrix is the one the solver returned (captured at the scf_loop boundary); products of the dipole formula are formed by the driver and summed by TLC"])
    finally:
        common.rm(scratch)
