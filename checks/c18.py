"""C18 - invalid requests are rejected loudly; valid ones yield finite results.

1. TLC enumerates the Guards decision table (15 360 request records) and checks
   DocumentedRejected, EarlyEnough, NoSpuriousReject on every row.
2. One replay per exported row (quick: all single-fault rows + a sample; thorough: all): the
   request is built from valid base inputs, run on the real API (single point or one MD step),
   and the outcome {raised before return, returned} must equal the table's verdict; after a raise
   no result attribute may have been published on the molecule; returned rows must be finite or
   flagged.
3. Accepted inputs stretched/compressed (0.5x-30x), highly charged, third-row elements, per method:
   finite or flagged (or an explicit error), never NaN/inf silently.
"""

import os

from drivers import guards_driver
from harness import common, tlc

PROP = "C18"
KEYS = ["sorted", "odd", "uhf", "mult_ok", "conv", "sp2", "exc", "nstates", "homog", "qmix", "active", "com"]


def nfaults(q):
    return sum([q["sorted"] != "ok", (not q["uhf"]) and q["odd"], q["uhf"] and not q["mult_ok"], q["uhf"] and q["sp2"], q["uhf"] and q["conv"] == 2, q["uhf"] and q["exc"] != "none",
                q["exc"] != "none" and not q["nstates"], q["exc"] == "bogus", q["exc"] == "rpa" and not q["homog"], q["exc"] in ("cis", "rpa") and q["homog"] and q["qmix"], q["exc"] == "cis" and not q["homog"] and q["active"] > 0, q["active"] > 0 and q["exc"] == "none", q["com"] in ("bogus", "ang", "lin", "", "near")])


def main(tier):
    rep = common.Reporter(PROP, tier)
    rng = __import__("random").Random(common.seed() + 18)
    scratch = common.scratch_dir("c18")
    try:
        r = tlc.run("Guards", dict(spec="Spec", invariants=["DocumentedRejected", "EarlyEnough", "NoSpuriousReject"]), scratch=scratch)
        if r.error:
            rep.machinery("TLC Guards: " + r.error[:500])
        elif r.violated:
            rep.violation("model_property_violated", {"violated": r.violated, "cex": r.counterexample[-1:]}, model=True)
        out = os.path.join(scratch, "guards.ndjson")
        g = tlc.run("GuardsGen", dict(spec="Spec", constants=dict(ExportMod=41 if tier == "quick" else 3), invariants=["Collect"], postcondition="Export"), workers=1, env={"OUT_FILE": out}, scratch=scratch, timeout=3000)
        rows = tlc.read_ndjson(out)
        # an irrelevant mult_ok (RHF) / nstates (no excited states) coordinate does not make a different request
        canon = {}
        for row in rows:
            q = dict(row["req"])
            if not q["uhf"]:
                q["mult_ok"] = True
            if q["exc"] == "none":
                q["nstates"] = True
            canon.setdefault(tuple(q[k] for k in KEYS), dict(row, req=q))
        rows = list(canon.values())
        single = [x for x in rows if nfaults(x["req"]) <= 1]
        if tier == "quick":
            acc = [x for x in single if nfaults(x["req"]) == 0]
            one = [x for x in single if nfaults(x["req"]) == 1]
            # one canonical row per value of every fault coordinate (everything else valid and default) is always replayed
            default = dict(sorted="ok", odd=False, uhf=False, mult_ok=True, conv=1, sp2=False, exc="none", nstates=True, homog=True, qmix=False, active=0, com="nomd")
            variants = [dict(sorted=v) for v in ("reversed", "pad_front", "pad_middle")] + [dict(com=v) for v in ("bogus", "ang", "lin", "", "near")] + [dict(odd=True), dict(uhf=True, mult_ok=False),
                        dict(uhf=True, sp2=True), dict(uhf=True, conv=2), dict(uhf=True, exc="cis"), dict(exc="cis", nstates=False), dict(exc="bogus"), dict(exc="rpa", homog=False), dict(active=1), dict(exc="cis", qmix=True), dict(exc="rpa", qmix=True), dict(qmix=True), dict(exc="cis", qmix=True, com="none"),
                        dict(exc="cis", homog=False, active=1), dict(sorted="pad_front", homog=False), dict(com="ang", uhf=True)]
            bykey = {tuple(x["req"][k] for k in KEYS): x for x in rows}
            must = [bykey[tuple(dict(default, **v)[k] for k in KEYS)] for v in variants if tuple(dict(default, **v)[k] for k in KEYS) in bykey]
            pick = must + rng.sample(one, min(len(one), 90)) + rng.sample(acc, min(len(acc), 40)) + rng.sample([x for x in rows if nfaults(x["req"]) > 1], 40)
        else:
            pick = rows
        res = common.run_forked(pick, guards_driver.run_row, timeout=900)
        n_ok = 0
        cls_mismatch = []
        samples = []
        for row, rr in zip(pick, res):
            q, v = row["req"], row["verdict"]
            fields = {k: q[k] for k in KEYS}
            fields["expected"] = v["verdict"]
            fields["stage"] = v["stage"]
            if not rr.get("ok"):
                rep.machinery(f"row failed: {rr.get('error')} {q}")
                continue
            o = rr["result"]
            if o["outcome"] == "hang":
                rep.violation("call_does_not_return", {"request": q, "error": o["error"]}, **fields)
                continue
            if v["verdict"] == "reject":
                if o["outcome"] != "raised":
                    rep.violation("invalid_request_not_rejected", {"request": q, "expected": v, "observed": o, "documented": row["doc"]}, documented=row["doc"], **fields)
                    continue
                late = bool(o.get("published_after_raise"))
                if late != (v["stage"] == "md_step"):
                    rep.violation("rejection_stage_differs_from_table", {"request": q, "expected": v, "published": o.get("published_after_raise"), "observed": o}, **fields)
                    continue
                if late:
                    rep.violation("result_published_before_rejection", {"request": q, "published": o["published_after_raise"], "observed": o}, md=q["com"] != "nomd", **fields)
                    n_ok += 1
                    continue
                if o["cls"] != v["cls"]:
                    cls_mismatch.append({"request": q, "expected": v["cls"], "observed": o["cls"]})
            else:
                if o["outcome"] == "raised":
                    rep.violation("valid_request_rejected", {"request": q, "observed": o}, **fields)
                    continue
                if not (o["finite"] or o["flagged"]):
                    rep.violation("nonfinite_result_without_flag", {"request": q, "observed": o}, **fields)
                    continue
            n_ok += 1
            if len(samples) < 3 and nfaults(q) == 1:
                samples.append({"request": q, "verdict": v, "observed": {k: o.get(k) for k in ("outcome", "cls", "finite", "flagged")}})
        sres = common.run_forked(guards_driver.STRESS, guards_driver.run_stress, timeout=900)
        stress = []
        for case, rr in zip(guards_driver.STRESS, sres):
            if not rr.get("ok"):
                rep.machinery(f"stress case {case[0]} failed: {rr.get('error')}")
                continue
            o = rr["result"]
            stress.append(o)
            if o["outcome"] == "returned" and not (o["finite"] or o["flagged"]):
                rep.violation("nonfinite_result_without_flag", {"stress_case": case, "observed": o}, stress=case[0])
            if o.get("expect") == "raise" and o["outcome"] == "returned":
                rep.violation("unsupported_element_not_rejected", {"stress_case": case, "observed": o}, stress=case[0])
        pres = common.run_forked(guards_driver.PROBES, guards_driver.run_probe, timeout=600)
        probes = []
        for case, rr in zip(guards_driver.PROBES, pres):
            if not rr.get("ok"):
                rep.machinery(f"probe {case['name']} failed: {rr.get('error')}")
                continue
            o = rr["result"]
            probes.append(o)
            if case["expect"] == "raise" and o["outcome"] == "returned":
                rep.violation("invalid_request_not_rejected", {"probe": case, "observed": o}, stress=case["name"])
            if case["expect"] == "return" and o["outcome"] == "raised":
                rep.violation("valid_request_rejected", {"probe": case, "observed": o}, stress=case["name"])
            if o["outcome"] == "returned" and not (o["finite"] or o["flagged"]):
                rep.violation("nonfinite_result_without_flag", {"probe": case, "observed": o}, stress=case["name"])
        cov = {
            "guard_probes": probes,
            "states": r.distinct + g.distinct,
            "transitions": r.generated + g.generated,
            "traces_validated_against_impl": len(pick),
            "rows_conforming": n_ok,
            "samples": samples or [{"note": "none"}],
            "table_rows": r.distinct, "rows_exported": len(rows),
            "rows_replayed": len(pick),
            "exception_class_differs_from_table": cls_mismatch[:10],
            "stress_cases": stress,
            "evaluations": len(pick) + len(stress),
            "distinct_nontrivial": len([x for x in pick if nfaults(x["req"]) >= 1]),
            "rule": "rows of the decision table exported by TLC (canonicalised over don't-care coordinates); non-trivial = at least one violated precondition; quick = sample of single-fault, accepted and multi-fault rows by VERIF_SEED",
            "exhaustive": False,
        }
        return rep.finish(cov, assumptions=["malformed variants are derived from two valid base batches (2 x H2O, H2O + CH4)", "exception classes are recorded, only raised-vs-returned is judged",
                                            "guards on options outside the listed preconditions (do_all_forces, normal modes, XL/FSSH constructors) are not in the table"])
    finally:
        common.rm(scratch)
