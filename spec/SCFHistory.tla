------------------------------ MODULE SCFHistory ------------------------------
(***************************************************************************)
(* Sequences of SCF solves along neighbouring geometries with density       *)
(* reuse: which density a solve starts from (cold guess, the density left   *)
(* by the previous solve of the walk - possibly at another geometry - or a  *)
(* perturbed, non-idempotent one) and which solver configuration it uses.   *)
(*   seqm/basics.py Energy.forward (P0=), MD reuse_P, scf_loop solvers.      *)
(* Every solve is an instance of the SCF model ending in its epilogue; by    *)
(* C03 (FlagTruthful) an unflagged exit is a self-consistent aufbau state,   *)
(* and under the property's premise of a single stable closed-shell          *)
(* solution (UniqueFixedPoint) that state is determined by the geometry.     *)
(* The model keeps the provenance bookkeeping; PathIndependent is then the  *)
(* statement that the set of result classes per geometry never exceeds one. *)
(***************************************************************************)
EXTENDS Integers, Sequences, FiniteSets, TLC
CONSTANTS Geoms, Configs, MaxLen, MayFlag
Starts == {"cold", "prev", "perturbed"}
VARIABLES walk, prov, classes
vars == <<walk, prov, classes>>
Init == walk = << >> /\ prov = "none" /\ classes = [g \in Geoms |-> {}]
Solve(g, s, c) ==
    /\ Len(walk) < MaxLen
    /\ (s = "prev" => prov # "none")
    /\ \E flagged \in (IF MayFlag THEN BOOLEAN ELSE {FALSE}) :
         /\ walk' = Append(walk, [g |-> g, start |-> s, cfg |-> c, flagged |-> flagged])
         \* an unflagged exit is THE fixed point of geometry g (UniqueFixedPoint + C03.FlagTruthful)
         /\ classes' = IF flagged THEN classes ELSE [classes EXCEPT ![g] = @ \cup {<<"fp", g>>}]
         /\ prov' = IF flagged THEN "unconverged" ELSE "conv"
Next == \E g \in Geoms, s \in Starts, c \in Configs : Solve(g, s, c)
Spec == Init /\ [][Next]_vars
PathIndependent == \A g \in Geoms : Cardinality(classes[g]) <= 1
=============================================================================
