-------------------------------- MODULE Batch --------------------------------
(***************************************************************************)
(* The index maps that tie every atom / pair / orbital block of a padded   *)
(* batch to its molecule: seqm/basics.py Parser.forward, transcribed with   *)
(* exact integer arithmetic, plus the padded-orbital pack map of             *)
(* seqm/seqm_functions/pack.py.  There are no transitions: every batch is  *)
(* an initial state and the properties are state predicates, so TLC        *)
(* enumerates the inputs exhaustively.                                      *)
(*                                                                         *)
(* A batch: sp = sequence of rows (sequences of atomic numbers, padded     *)
(* with 0, each row non-increasing), cut2 = squared pair cutoff in lattice *)
(* units (Inf = default 1e10), pos = integer lattice coordinates.  In the    *)
(* enumerated lattice atom i (0-based) of row m sits at x = 3 i + m.        *)
(***************************************************************************)
EXTENDS Integers, Sequences, FiniteSets, TLC

CONSTANTS MaxMol, MaxSize, Species, Cuts, Seps, FragCuts
Inf == 0

VARIABLE B

NMol(b) == Len(b.sp)
Size(b) == Len(b.sp[1])
Tore(z) == CASE z = 0 -> 0 [] z = 1 -> 1 [] z = 6 -> 4 [] z = 7 -> 5 [] z = 8 -> 6 [] z = 9 -> 7

NonIncreasing(r) == \A i \in 1..(Len(r) - 1) : r[i] >= r[i + 1]
Rows(n) == {r \in [1..n -> Species \cup {0}] : NonIncreasing(r) /\ r[1] > 0}
LinePos(nm, n) == [m \in 1..nm |-> [i \in 1..n |-> <<3 * (i - 1) + (m - 1), 0, 0>>]]
Lattice == UNION {UNION {{[sp |-> s, cut2 |-> c, pos |-> LinePos(nm, n)] : s \in [1..nm -> Rows(n)], c \in Cuts} : n \in 1..MaxSize} : nm \in 1..MaxMol}
\* C19: two water-like fragments in one row, O...O separation d (lattice unit = 1 Angstrom)
FragPos(d) == << <<0, 0, 0>>, <<d, 0, 0>>, <<1, 0, 0>>, <<0, 1, 0>>, <<d + 1, 0, 0>>, <<d, 1, 0>> >>
Fragments == {[sp |-> << <<8, 8, 1, 1, 1, 1>> >>, cut2 |-> c, pos |-> <<FragPos(d)>>] : d \in Seps, c \in FragCuts}
           \cup {[sp |-> << <<8, 8, 1, 1, 1, 1>>, <<8, 1, 1, 0, 0, 0>> >>, cut2 |-> c,
                  pos |-> <<FragPos(d), << <<0, 0, 0>>, <<1, 0, 0>>, <<0, 1, 0>>, <<0, 0, 0>>, <<0, 0, 0>>, <<0, 0, 0>> >> >>] : d \in Seps, c \in FragCuts}
\* the same two fragments displaced along the space diagonal (a cutoff is a sphere, not a cube: every Cartesian component of the
\* separation may be below the cutoff while the distance is above it)
DiagPos(d) == << <<0, 0, 0>>, <<d, d, d>>, <<1, 0, 0>>, <<0, 1, 0>>, <<d + 1, d, d>>, <<d, d + 1, d>> >>
DiagFragments == {[sp |-> << <<8, 8, 1, 1, 1, 1>> >>, cut2 |-> c, pos |-> <<DiagPos(d)>>] : d \in {4, 8}, c \in FragCuts \cup {100}}
Batches == Lattice \cup Fragments \cup DiagFragments

\* ---- Parser.forward ------------------------------------------------------------------
\* flat atom index (0-based) of atom i (0-based) in row m (0-based)
Flat(b, m, i) == m * Size(b) + i
Sp(b, a) == b.sp[(a \div Size(b)) + 1][(a % Size(b)) + 1]
IsReal(b, a) == Sp(b, a) > 0
AllFlat(b) == 0..(NMol(b) * Size(b) - 1)
\* real_atoms: flat indices of real atoms in increasing order; RealRank = inv_real_atoms
RealRank(b, a) == Cardinality({x \in AllFlat(b) : x < a /\ IsReal(b, x)})
NReal(b) == Cardinality({x \in AllFlat(b) : IsReal(b, x)})
RealAtom(b, k) == CHOOSE a \in AllFlat(b) : IsReal(b, a) /\ RealRank(b, a) = k      \* k-th real atom
Zs(b)      == [k \in 0..(NReal(b) - 1) |-> Sp(b, RealAtom(b, k))]
MaskD(b)   == [k \in 0..(NReal(b) - 1) |->
                 LET a == RealAtom(b, k) IN ((a \div Size(b)) * Size(b) * Size(b)) + ((a % Size(b)) * (Size(b) + 1))]
AtomMol(b) == [k \in 0..(NReal(b) - 1) |-> RealAtom(b, k) \div Size(b)]
PosOf(b, a) == b.pos[(a \div Size(b)) + 1][(a % Size(b)) + 1]
Sq(x) == x * x
Dist2(b, a, c) == Sq(PosOf(b, a)[1] - PosOf(b, c)[1]) + Sq(PosOf(b, a)[2] - PosOf(b, c)[2]) + Sq(PosOf(b, a)[3] - PosOf(b, c)[3])
Close(b, a, c) == b.cut2 = Inf \/ Dist2(b, a, c) < b.cut2
\* pairs = (pair_first < pair_second) * nonblank_pairs * close_pairs, in (m, i, j) order
IsPair(b, a, c) == /\ a \div Size(b) = c \div Size(b) /\ a < c
                   /\ IsReal(b, a) /\ IsReal(b, c) /\ Close(b, a, c)
PairSet(b) == {<<a, c>> \in AllFlat(b) \X AllFlat(b) : IsPair(b, a, c)}
PairRank(b, p) == Cardinality({q \in PairSet(b) : q[1] < p[1] \/ (q[1] = p[1] /\ q[2] < p[2])})
NPairs(b) == Cardinality(PairSet(b))
Pair(b, k) == CHOOSE p \in PairSet(b) : PairRank(b, p) = k
IdxI(b) == [k \in 0..(NPairs(b) - 1) |-> RealRank(b, Pair(b, k)[1])]
IdxJ(b) == [k \in 0..(NPairs(b) - 1) |-> RealRank(b, Pair(b, k)[2])]
Mask(b)  == [k \in 0..(NPairs(b) - 1) |-> (Pair(b, k)[1] * Size(b)) + (Pair(b, k)[2] % Size(b))]
MaskL(b) == [k \in 0..(NPairs(b) - 1) |-> (Pair(b, k)[2] * Size(b)) + (Pair(b, k)[1] % Size(b))]
PairMol(b) == [k \in 0..(NPairs(b) - 1) |-> Pair(b, k)[1] \div Size(b)]
RowCount(b, m, P(_)) == Cardinality({i \in 1..Size(b) : P(b.sp[m][i])})
IsHeavy(z) == z > 1
IsHydro(z) == z = 1
NHeavy(b) == [m \in 1..NMol(b) |-> RowCount(b, m, IsHeavy)]
NHydro(b) == [m \in 1..NMol(b) |-> RowCount(b, m, IsHydro)]
RECURSIVE SumTore(_, _)
SumTore(r, n) == IF n = 0 THEN 0 ELSE Tore(r[n]) + SumTore(r, n - 1)
NElec(b) == [m \in 1..NMol(b) |-> SumTore(b.sp[m], Size(b))]        \* neutral molecules
NOcc(b)  == [m \in 1..NMol(b) |-> NElec(b)[m] \div 2]
OddRow(b) == \E m \in 1..NMol(b) : NElec(b)[m] % 2 = 1              \* RHF must reject

\* ---- pack.py: packed position of each physical orbital of a molecule ---------------------
\* unpacked orbital index of orbital o (0..3) on atom i (0-based) = 4 i + o; heavy atoms first
\* (rows are sorted), hydrogens keep only o = 0.  PackMap gives packed index or -1 (dropped).
PackIdx(nheavy, nhydro, u) ==
    IF u < 4 * nheavy THEN u
    ELSE IF u < 4 * (nheavy + nhydro) /\ ((u - 4 * nheavy) % 4) = 0 THEN (4 * nheavy) + ((u - 4 * nheavy) \div 4)
    ELSE -1
NOrb(nheavy, nhydro) == 4 * nheavy + nhydro

\* ---- derived batches ----------------------------------------------------------------------
Solo(b, m)  == [sp |-> <<b.sp[m]>>, cut2 |-> b.cut2, pos |-> <<b.pos[m]>>]
SwapRows(b) == [sp |-> [m \in 1..NMol(b) |-> b.sp[NMol(b) + 1 - m]], cut2 |-> b.cut2,
                pos |-> [m \in 1..NMol(b) |-> b.pos[NMol(b) + 1 - m]]]
Widen(b)    == [sp |-> [m \in 1..NMol(b) |-> Append(b.sp[m], 0)], cut2 |-> b.cut2,
                pos |-> [m \in 1..NMol(b) |-> Append(b.pos[m], <<0, 0, 0>>)]]

\* ---- properties -----------------------------------------------------------------------------
\* real-atom offset of row m (0-based), pair offset of row m
AtomOff(b, m) == Cardinality({x \in AllFlat(b) : x \div Size(b) < m /\ IsReal(b, x)})
PairOff(b, m) == Cardinality({p \in PairSet(b) : p[1] \div Size(b) < m})
\* C05 (a): everything that belongs to row m is what the molecule alone would get, shifted
Transparent(b) ==
    \A m \in 1..NMol(b) :
      LET s == Solo(b, m)  ao == AtomOff(b, m - 1)  po == PairOff(b, m - 1) IN
      /\ \A k \in 0..(NReal(s) - 1) :
            /\ Zs(b)[ao + k] = Zs(s)[k] /\ AtomMol(b)[ao + k] = m - 1
            /\ MaskD(b)[ao + k] = MaskD(s)[k] + (m - 1) * Size(b) * Size(b)
      /\ NPairs(s) = Cardinality({p \in PairSet(b) : p[1] \div Size(b) = m - 1})
      /\ \A k \in 0..(NPairs(s) - 1) :
            /\ IdxI(b)[po + k] = IdxI(s)[k] + ao /\ IdxJ(b)[po + k] = IdxJ(s)[k] + ao
            /\ Mask(b)[po + k] = Mask(s)[k] + (m - 1) * Size(b) * Size(b)
            /\ MaskL(b)[po + k] = MaskL(s)[k] + (m - 1) * Size(b) * Size(b)
            /\ PairMol(b)[po + k] = m - 1
      /\ NHeavy(b)[m] = NHeavy(s)[1] /\ NHydro(b)[m] = NHydro(s)[1] /\ NOcc(b)[m] = NOcc(s)[1]
\* reversing the row order reverses the per-molecule blocks and nothing else
PermInvariant(b) ==
    LET r == SwapRows(b) IN
    /\ NReal(r) = NReal(b) /\ NPairs(r) = NPairs(b)
    /\ \A m \in 1..NMol(b) : /\ NHeavy(r)[NMol(b) + 1 - m] = NHeavy(b)[m] /\ NOcc(r)[NMol(b) + 1 - m] = NOcc(b)[m]
                             /\ Cardinality({p \in PairSet(r) : p[1] \div Size(r) = NMol(b) - m})
                                  = Cardinality({p \in PairSet(b) : p[1] \div Size(b) = m - 1})
\* one more padding column: same atoms, same pairs, block positions re-based on the new width
PadInvariant(b) ==
    LET w == Widen(b) IN
    /\ Zs(w) = Zs(b) /\ AtomMol(w) = AtomMol(b) /\ IdxI(w) = IdxI(b) /\ IdxJ(w) = IdxJ(b) /\ PairMol(w) = PairMol(b)
    /\ NHeavy(w) = NHeavy(b) /\ NHydro(w) = NHydro(b) /\ NOcc(w) = NOcc(b)
    /\ \A k \in 0..(NPairs(b) - 1) :
          LET a == Pair(b, k)[1]  c == Pair(b, k)[2]  n == Size(b) IN
          Mask(w)[k] = ((((a \div n) * (n + 1)) + (a % n)) * (n + 1)) + (c % n)
\* C19 (b)(c): default cutoff drops nothing; finite cutoff drops exactly the pairs beyond it
CutoffExact(b) ==
    \A a, c \in AllFlat(b) :
      (a \div Size(b) = c \div Size(b) /\ a < c /\ IsReal(b, a) /\ IsReal(b, c)) =>
         (<<a, c>> \in PairSet(b) <=> (b.cut2 = Inf \/ Dist2(b, a, c) < b.cut2))
SameMoleculeOnly(b) == \A p \in PairSet(b) : p[1] \div Size(b) = p[2] \div Size(b)
\* pack map: a bijection from the physical orbitals onto 0..norb-1
PackBijective ==
    \A nh \in 0..MaxSize : \A ny \in 0..(MaxSize - nh) :
       LET phys == {u \in 0..(4 * MaxSize - 1) : PackIdx(nh, ny, u) # -1} IN
       /\ Cardinality(phys) = NOrb(nh, ny)
       /\ {PackIdx(nh, ny, u) : u \in phys} = 0..(NOrb(nh, ny) - 1)

Init == B \in Batches
Next == UNCHANGED B
Spec == Init /\ [][Next]_B

P_Transparent == Transparent(B)
P_Perm        == PermInvariant(B)
P_Pad         == PadInvariant(B)
P_Cutoff      == CutoffExact(B) /\ SameMoleculeOnly(B)
P_Pack        == PackBijective
=============================================================================
