----------------------------- MODULE ParamFlowGen -----------------------------
EXTENDS ParamFlow, Json, IOUtils, FiniteSetsExt, SequencesExt
ASSUME TLCSet(2, {})
Collect == stage = "done" => TLCSet(2, TLCGet(2) \cup {[req |-> req, raised |-> link = "raised",
                                                        paths |-> SetToSeq(Paths(req.p)), required |-> SetToSeq({o \in Outs : Required(o)}), reaches |-> SetToSeq({o \in Outs : Reaches(o)})]})
Export == ndJsonSerialize(IOEnv.OUT_FILE, SetToSeq(TLCGet(2)))
=============================================================================
