------------------------------- MODULE MDRun -------------------------------
(***************************************************************************)
(* The MD run loop of seqm/MolecularDynamics.py as a state machine:        *)
(*   Molecular_Dynamics_Basic.initialize / run, HDF5Writer, XYZWriter,     *)
(*   _flush_all, _atomic_save_checkpoint, run_from_checkpoint              *)
(*   (+ the nonadiabatic stream appended in                                *)
(*    NonadiabaticDynamicsBase._do_integrator_step).                       *)
(*                                                                         *)
(* One action per critical section of the Python code; the hook that marks *)
(* the end of the section is given as  [md.xxx]  in the action's comment.  *)
(*                                                                         *)
(* Rows are abstracted to their step label:                                *)
(*     -1        unwritten (filler) row                                    *)
(*      l >= 0   complete row labelled l whose values are those of step l  *)
(*     -(l+2)    row labelled l whose values are NOT those of step l       *)
(*               (half-written row, or written from an inexact state)      *)
(*                                                                         *)
(* Deviation constants describe how shipped code differs / differed from   *)
(* the design the properties demand:                                       *)
(*   VecGateMode   "own"      every vector stream is gated by its own cadence*)
(*                 "min"      outer gate = minimum positive vector cadence *)
(*   TdmGateMode   "data" as coded and accepted: TDM rows are written inside *)
(*                 append_data, i.e. only at steps due for BOTH /data and  *)
(*                 the TDM cadence (TDM is not one of the C11 streams);    *)
(*                 "own" = hypothetical own-cadence variant                *)
(*   TdmResumeMode "written" cursor = rows actually written so far;        *)
(*                 "own" (shipped) cursor = step_done div tdm cadence + 1  *)
(*   XyzResumeMode "truncate" cut XYZ back to the checkpointed length      *)
(*                 "append"   reopen in append mode without cutting back   *)
(*   ResumeExact   TRUE iff the checkpoint restores every carried variable *)
(***************************************************************************)
EXTENDS Integers, Sequences, FiniteSets, TLC

CONSTANTS
    Configs,        \* set of configuration records explored (see MDRunMC for the lattice)
    MaxCrash,       \* max number of crashes per behaviour
    CrashKinds,     \* subset of {"soft", "hard"}
    CrashPcs,       \* program points at which a crash may strike
    FlushRows,      \* rows between automatic h5.flush() (100 in the code)
    VecGateMode, TdmGateMode, TdmResumeMode, XyzResumeMode, ResumeExact,
    RecordHist      \* TRUE: keep the crash schedule in hist (behaviour export)

H5Streams  == {"data", "coordinates", "velocities", "forces", "na", "tdm"}
VecStreams == {"coordinates", "velocities", "forces"}

VARIABLES
    cfg,      \* [steps, cad : [H5Streams -> Nat], xyz, ckpt, print]
    pc, i,
    cur,      \* row cursor per stream (i_data, i_vec[..], i_na, i_tdm)
    mem,      \* file image as the HDF5 library of the running process sees it
    dsk,      \* durable file image (what a new process would read)
    xbuf,     \* XYZ frames in the user-space buffer (labels)
    xdsk,     \* XYZ frames in the file
    torn,     \* XYZ file ends with a partial frame
    ckpt,     \* NoCkpt or [done |-> step_done, xlen |-> frames flushed when it was taken]
    tmp,      \* temp checkpoint file of the running process: "none" | "partial" | "complete"
    litter,   \* temp files left behind by killed processes (never reused, never removed)
    crashes,
    exact,    \* in-memory phase point / electronic state / RNG equals the reference run's
    scr,      \* step labels printed to the screen by the processes so far
    cks,      \* step_done of every checkpoint published so far
    hist      \* crash schedule so far (only if RecordHist)

vars == <<cfg, pc, i, cur, mem, dsk, xbuf, xdsk, torn, ckpt, tmp, litter, crashes, exact, scr, cks, hist>>

NoCkpt == [done |-> -1, xlen |-> 0]

Cad(s)  == cfg.cad[s]
Steps   == cfg.steps
Due(c, n) == c > 0 /\ n % c = 0

LCM(a, b) == CHOOSE m \in 1..(a * b) : /\ m % a = 0 /\ m % b = 0
                                       /\ \A k \in 1..(m - 1) : ~(k % a = 0 /\ k % b = 0)
\* effective stride of a stream (rows appear at its multiples)
Stride(s) == IF s = "tdm" /\ TdmGateMode = "data" /\ Cad("tdm") > 0 /\ Cad("data") > 0
               THEN LCM(Cad("tdm"), Cad("data")) ELSE Cad(s)
\* HDF5Writer._n_timepoints(steps, stride, include_initial=True)
Cap(s) == IF Cad(s) = 0 THEN 0 ELSE (Steps + Cad(s)) \div Cad(s)

PosVec   == {Cad(s) : s \in VecStreams} \ {0}
MinOf(S) == CHOOSE x \in S : \A y \in S : x <= y
VecEvery == IF PosVec = {} THEN 0 ELSE MinOf(PosVec)   \* OutputConfig.h5_vectors_every

Unwritten  == -1
Bad(l)     == -(l + 2)
EmptyFile  == [s \in H5Streams |-> [r \in 0..(Cap(s) - 1) |-> Unwritten]]

\* write label v at the cursor of every stream in W (guard i < Tw as in the code) and advance
Put(f, W, v) == [s \in H5Streams |->
                   IF s \in W /\ cur[s] < Cap(s) THEN [f[s] EXCEPT ![cur[s]] = v] ELSE f[s]]
Adv(W) == [s \in H5Streams |-> IF s \in W /\ cur[s] < Cap(s) THEN cur[s] + 1 ELSE cur[s]]
Val(l) == IF exact THEN l ELSE Bad(l)

InitWith(c) ==
    /\ cfg = c
    /\ pc = "fresh" /\ i = 0
    /\ cur = [s \in H5Streams |-> 0]
    /\ mem = [s \in H5Streams |-> << >>] /\ dsk = [s \in H5Streams |-> << >>]
    /\ xbuf = << >> /\ xdsk = << >> /\ torn = FALSE
    /\ ckpt = NoCkpt /\ tmp = "none" /\ litter = 0 /\ crashes = 0 /\ exact = TRUE
    /\ scr = << >> /\ cks = << >> /\ hist = << >>

Init == \E c \in Configs : InitWith(c)

-----------------------------------------------------------------------------
\* initialize() of a fresh run: create the files and write the t = 0 snapshot     [md.init]
TdmDue(n) == /\ Cad("tdm") > 0 /\ n % Cad("tdm") = 0
             /\ (TdmGateMode = "own" \/ Due(Cad("data"), n) \/ (n = 0 /\ Cad("data") > 0))
Fresh ==
    /\ pc = "fresh"
    /\ LET W == {s \in H5Streams : Cad(s) > 0 /\ (s = "tdm" => TdmDue(0))
                                    /\ (s \in VecStreams /\ VecGateMode = "min" => VecEvery > 0)}
       IN /\ mem' = [s \in H5Streams |->
                      IF s \in W THEN [EmptyFile[s] EXCEPT ![0] = 0] ELSE EmptyFile[s]]
          /\ cur' = [s \in H5Streams |-> IF s \in W THEN 1 ELSE 0]
    /\ dsk' = EmptyFile
    /\ xbuf' = IF cfg.xyz > 0 THEN <<0>> ELSE << >>
    /\ pc' = "step" /\ i' = 0
    /\ UNCHANGED <<cfg, xdsk, torn, ckpt, tmp, crashes, exact, scr, cks, hist, litter>>

\* _do_integrator_step: the physics (positions, velocities, forces, densities advance one step)
Integrate ==
    /\ pc = "step" /\ i < Steps
    /\ pc' = "na"
    /\ UNCHANGED <<cfg, i, cur, mem, dsk, xbuf, xdsk, torn, ckpt, tmp, crashes, exact, scr, cks, hist, litter>>

AutoFlush(newcur, W, f) ==
    IF \E s \in W : newcur[s] # cur[s] /\ newcur[s] % FlushRows = 0 THEN f ELSE dsk

\* nonadiabatic stream, appended inside _do_integrator_step                      [md.na]
AppendNa ==
    /\ pc = "na"
    /\ IF Due(Cad("na"), i + 1)
         THEN /\ mem' = Put(mem, {"na"}, Val(i + 1)) /\ cur' = Adv({"na"})
              /\ dsk' = AutoFlush(cur', {"na"}, mem')
         ELSE UNCHANGED <<mem, cur, dsk>>
    /\ pc' = "stepdone"
    /\ UNCHANGED <<cfg, i, xbuf, xdsk, torn, ckpt, tmp, crashes, exact, scr, cks, hist, litter>>

\* _do_integrator_step has returned                                              [md.step]
StepDone ==
    /\ pc = "stepdone" /\ pc' = "scr"
    /\ UNCHANGED <<cfg, i, cur, mem, dsk, xbuf, xdsk, torn, ckpt, tmp, crashes, exact, scr, cks, hist, litter>>

\* _output_to_screen
Screen ==
    /\ pc = "scr"
    /\ scr' = IF Due(cfg.print, i + 1) THEN Append(scr, i + 1) ELSE scr
    /\ pc' = "data"
    /\ UNCHANGED <<cfg, i, cur, mem, dsk, xbuf, xdsk, torn, ckpt, tmp, crashes, exact, cks, hist, litter>>

\* append_data: the step label is stored first ...                              [md.data.mid]
DataSkip ==
    /\ pc = "data" /\ ~Due(Cad("data"), i + 1)
    /\ pc' = "vec"
    /\ UNCHANGED <<cfg, i, cur, mem, dsk, xbuf, xdsk, torn, ckpt, tmp, crashes, exact, scr, cks, hist, litter>>
DataMid ==
    /\ pc = "data" /\ Due(Cad("data"), i + 1)
    \* over a stale but identical row (left by an earlier, crashed segment) the label write changes nothing
    /\ mem' = Put(mem, {"data"}, IF cur["data"] < Cap("data") /\ mem["data"][cur["data"]] = Val(i + 1)
                                   THEN Val(i + 1) ELSE Bad(i + 1))
    /\ pc' = "data2"
    /\ UNCHANGED <<cfg, i, cur, dsk, xbuf, xdsk, torn, ckpt, tmp, crashes, exact, scr, cks, hist, litter>>
\* ... then the values, the TDM row if due, the cursor and the automatic flush    [md.data]
DataFull ==
    /\ pc = "data2"
    /\ LET W == {"data"} \cup (IF TdmDue(i + 1) THEN {"tdm"} ELSE {})
       IN /\ mem' = Put(mem, W, Val(i + 1)) /\ cur' = Adv(W)
          /\ dsk' = AutoFlush(cur', {"data"}, mem')
    /\ pc' = "vec"
    /\ UNCHANGED <<cfg, i, xbuf, xdsk, torn, ckpt, tmp, crashes, exact, scr, cks, hist, litter>>

\* append_vectors                                                               [md.vec]
VecDue(s) == /\ Due(Cad(s), i + 1)
             /\ (VecGateMode = "own" \/ (VecEvery > 0 /\ (i + 1) % VecEvery = 0))
VecW == {s \in VecStreams : VecDue(s)}
\* TDM rows under TdmGateMode = "own" are not written by append_data alone when /data is not due;
\* the design writes them at their own cadence: modelled here, after the data section.
TdmOwnW == IF TdmGateMode = "own" /\ TdmDue(i + 1) /\ ~Due(Cad("data"), i + 1) THEN {"tdm"} ELSE {}
AppendVec ==
    /\ pc = "vec"
    /\ LET W == VecW \cup TdmOwnW
       IN /\ mem' = Put(mem, W, Val(i + 1)) /\ cur' = Adv(W)
          /\ dsk' = AutoFlush(cur', W, mem')
    /\ pc' = "xyz"
    /\ UNCHANGED <<cfg, i, xbuf, xdsk, torn, ckpt, tmp, crashes, exact, scr, cks, hist, litter>>

\* XYZWriter.write into the 1 MB user-space buffer                               [md.xyz]
AppendXyz ==
    /\ pc = "xyz"
    /\ xbuf' = IF Due(cfg.xyz, i + 1) THEN Append(xbuf, Val(i + 1)) ELSE xbuf
    /\ pc' = IF Due(cfg.ckpt, i + 1) THEN "flushh" ELSE "next"
    /\ UNCHANGED <<cfg, i, cur, mem, dsk, xdsk, torn, ckpt, tmp, crashes, exact, scr, cks, hist, litter>>

\* _flush_all: first the HDF5 files, then the XYZ files                          [md.flush after both]
FlushH5 ==
    /\ pc = "flushh" /\ dsk' = mem /\ pc' = "flushx"
    /\ UNCHANGED <<cfg, i, cur, mem, xbuf, xdsk, torn, ckpt, tmp, crashes, exact, scr, cks, hist, litter>>
FlushXyz ==
    /\ pc = "flushx" /\ xdsk' = xdsk \o xbuf /\ xbuf' = << >> /\ pc' = "tmp"
    /\ UNCHANGED <<cfg, i, cur, mem, dsk, torn, ckpt, tmp, crashes, exact, scr, cks, hist, litter>>

\* _atomic_save_checkpoint: mkstemp + torch.save into the temp file              [md.ckpt_tmp]
TmpPartial ==
    /\ pc = "tmp" /\ tmp' = "partial" /\ pc' = "tmp2"
    /\ UNCHANGED <<cfg, i, cur, mem, dsk, xbuf, xdsk, torn, ckpt, crashes, exact, scr, cks, hist, litter>>
TmpComplete ==
    /\ pc = "tmp2" /\ tmp' = "complete" /\ pc' = "replace"
    /\ UNCHANGED <<cfg, i, cur, mem, dsk, xbuf, xdsk, torn, ckpt, crashes, exact, scr, cks, hist, litter>>
\* os.replace(tmp, path)                                                         [md.ckpt_replace]
Replace ==
    /\ pc = "replace"
    /\ ckpt' = [done |-> i + 1, xlen |-> Len(xdsk)]
    /\ tmp' = "none" /\ cks' = Append(cks, i + 1) /\ pc' = "next"
    /\ UNCHANGED <<cfg, i, cur, mem, dsk, xbuf, xdsk, torn, crashes, exact, scr, hist, litter>>

NextIter ==                                                                      \* [md.iter_end]
    /\ pc = "next" /\ i' = i + 1 /\ pc' = "step"
    /\ UNCHANGED <<cfg, cur, mem, dsk, xbuf, xdsk, torn, ckpt, tmp, crashes, exact, scr, cks, hist, litter>>

\* loop exhausted: the finally block closes (= flushes) both writers             [md.close]
Finish ==
    /\ pc = "step" /\ i = Steps
    /\ dsk' = mem /\ xdsk' = xdsk \o xbuf /\ xbuf' = << >> /\ pc' = "done"
    /\ UNCHANGED <<cfg, i, cur, mem, torn, ckpt, tmp, crashes, exact, scr, cks, hist, litter>>

-----------------------------------------------------------------------------
Running == pc \in {"step", "na", "stepdone", "scr", "data", "data2", "vec", "xyz", "flushh", "flushx",
                   "tmp", "tmp2", "replace", "next"}
CanCrash == Running /\ pc \in CrashPcs /\ crashes < MaxCrash

\* an exception: the finally blocks close both writers and remove the temp file
SoftCrash ==
    /\ CanCrash /\ "soft" \in CrashKinds
    /\ crashes' = crashes + 1
    /\ dsk' = mem /\ xdsk' = xdsk \o xbuf /\ xbuf' = << >>
    /\ tmp' = IF pc \in {"tmp2", "replace"} THEN "none" ELSE tmp
    /\ pc' = "dead"
    /\ hist' = IF RecordHist THEN Append(hist, <<pc, i, "soft">>) ELSE hist
    /\ UNCHANGED <<cfg, i, cur, mem, torn, ckpt, exact, scr, cks, litter>>

\* kill -9: user-space buffers are lost; any prefix of the XYZ buffer (possibly ending in a torn
\* frame) and the unflushed rows of any subset of streams may already have reached the files
Dirty == {s \in H5Streams : mem[s] # dsk[s]}
HardCrash ==
    /\ CanCrash /\ "hard" \in CrashKinds
    /\ crashes' = crashes + 1
    /\ \E L \in SUBSET Dirty : dsk' = [s \in H5Streams |-> IF s \in L THEN mem[s] ELSE dsk[s]]
    /\ \E k \in 0..Len(xbuf) :
          /\ xdsk' = xdsk \o SubSeq(xbuf, 1, k)
          /\ torn' \in (IF k < Len(xbuf) THEN {torn, TRUE} ELSE {torn})
    /\ xbuf' = << >>
    /\ pc' = "dead"
    /\ hist' = IF RecordHist THEN Append(hist, <<pc, i, "hard">>) ELSE hist
    /\ tmp' = "none" /\ litter' = litter + (IF tmp = "none" THEN 0 ELSE 1)
    /\ UNCHANGED <<cfg, i, cur, mem, ckpt, exact, scr, cks>>

\* run_from_checkpoint: new process, step_offset = step_done, cursors recomputed,
\* files reopened ("r+" / "a+")                                                   [md.resume_open, md.init]
Resume ==
    /\ pc = "dead" /\ ckpt.done >= 0
    /\ i' = ckpt.done
    /\ cur' = [s \in H5Streams |->
                IF Cad(s) = 0 THEN 0
                ELSE IF s = "tdm" /\ TdmResumeMode = "own" THEN (ckpt.done \div Cad(s)) + 1
                ELSE (ckpt.done \div Stride(s)) + 1]
    /\ mem' = dsk
    /\ IF XyzResumeMode = "truncate"
         THEN xdsk' = SubSeq(xdsk, 1, ckpt.xlen) /\ torn' = FALSE   \* cut at the recorded byte length
         ELSE UNCHANGED <<xdsk, torn>>
    /\ xbuf' = << >>
    /\ exact' = (exact /\ ResumeExact)
    /\ pc' = "step"
    /\ UNCHANGED <<cfg, dsk, ckpt, tmp, crashes, scr, cks, hist, litter>>

Next == \/ Fresh \/ Integrate \/ AppendNa \/ StepDone \/ Screen \/ DataSkip \/ DataMid \/ DataFull \/ AppendVec
        \/ AppendXyz \/ FlushH5 \/ FlushXyz \/ TmpPartial \/ TmpComplete \/ Replace \/ NextIter
        \/ Finish \/ SoftCrash \/ HardCrash \/ Resume

Spec == Init /\ [][Next]_vars /\ WF_vars(Next)

-----------------------------------------------------------------------------
\* Reference content: what an uninterrupted run leaves behind.
NRows(s)   == IF Cad(s) = 0 THEN 0 ELSE (Steps \div Stride(s)) + 1   \* rows an uninterrupted run writes
RefRows(s) == [r \in 0..(Cap(s) - 1) |-> IF r < NRows(s) THEN r * Stride(s) ELSE Unwritten]
RefSeq(c)  == IF c = 0 THEN << >> ELSE [k \in 1..((Steps \div c) + 1) |-> (k - 1) * c]
PosMult(c) == IF c = 0 THEN << >> ELSE [k \in 1..(Steps \div c) |-> k * c]
IsPrefixOf(a, b) == Len(a) <= Len(b) /\ \A k \in 1..Len(a) : a[k] = b[k]

\* the state a resumed process finds when an earlier process died right after publishing the checkpoint of step
\* `off` with everything up to it durable (used to validate a resumed segment on its own)
DeadAfterCheckpoint(c, off) ==
    /\ cfg = c /\ pc = "dead" /\ i = off
    /\ cur = [s \in H5Streams |-> 0]
    /\ dsk = [s \in H5Streams |-> [r \in 0..(Cap(s) - 1) |-> IF r < NRows(s) /\ r * Stride(s) <= off THEN r * Stride(s) ELSE Unwritten]]
    /\ mem = dsk
    /\ xbuf = << >> /\ torn = FALSE
    /\ xdsk = (IF c.xyz = 0 THEN << >> ELSE [k \in 1..((off \div c.xyz) + 1) |-> (k - 1) * c.xyz])
    /\ ckpt = [done |-> off, xlen |-> Len(xdsk)]
    /\ tmp = "none" /\ litter = 0 /\ crashes = 1 /\ exact = TRUE
    /\ scr = << >> /\ cks = << >> /\ hist = << >>


TypeOK ==
    /\ pc \in {"fresh", "step", "na", "stepdone", "scr", "data", "data2", "vec", "xyz", "flushh", "flushx",
               "tmp", "tmp2", "replace", "next", "done", "dead"}
    /\ i \in 0..Steps /\ crashes \in 0..MaxCrash /\ tmp \in {"none", "partial", "complete"}
    /\ \A s \in H5Streams : cur[s] \in 0..Cap(s)

\* C10 (a): the published checkpoint is only ever produced by renaming a complete temp file
CkptNeverPartial == pc = "replace" => tmp = "complete"

\* C10 (b): a published checkpoint never claims more than is durable
CkptCovered ==
    ckpt.done >= 0 =>
      /\ \A s \in H5Streams : \A r \in 0..(NRows(s) - 1) :
            r * Stride(s) <= ckpt.done => dsk[s][r] = r * Stride(s)
      /\ ckpt.xlen <= Len(xdsk)
      /\ IsPrefixOf(SubSeq(xdsk, 1, ckpt.xlen), RefSeq(cfg.xyz))
      /\ (cfg.xyz > 0 => ckpt.xlen = (ckpt.done \div cfg.xyz) + 1)

\* C10 (d,e) and C11 (a,b,c,d): final content
H5Equal        == pc = "done" => \A s \in H5Streams : dsk[s] = RefRows(s)
XyzExactlyOnce == pc = "done" => xdsk = RefSeq(cfg.xyz) /\ ~torn
ExactAtEnd     == pc = "done" => exact
ScreenExact    == pc = "done" /\ crashes = 0 => scr = PosMult(cfg.print)
CkptCadence    == pc = "done" /\ crashes = 0 => cks = PosMult(cfg.ckpt)
CursorAtCap    == pc = "done" => \A s \in H5Streams : cur[s] = NRows(s)
\* C11 (b) for the streams the property lists: pre-allocated capacity = rows written
NoFiller       == \A s \in H5Streams \ {"tdm"} : NRows(s) = Cap(s)
\* exceptions never leave temp files behind (only kills can)
NoTmpLitterSoft == (pc = "done" => tmp = "none") /\ ("hard" \notin CrashKinds => litter = 0)

\* the cursor of a stream always points just past the last row whose label is due
CursorConsistent ==
    pc \in {"step", "next"} =>
       \A s \in H5Streams : Cad(s) > 0 => cur[s] = (i + (IF pc = "next" THEN 1 ELSE 0)) \div Stride(s) + 1

\* C10 (c,f): every behaviour ends finished, or dead with nothing to resume from
Finishes == <>(pc = "done" \/ (pc = "dead" /\ ckpt.done < 0))
=============================================================================
