------------------------------ MODULE SP2Trace ------------------------------
(* Validates recorded SP2 calls (hook sp2.iter: active mask after the sweep, digests of every matrix)
   against SP2.  Trace: id, n, cap, ev = sequence of [after |-> seq of active indices, changed |-> seq]. *)
EXTENDS SP2, Json, IOUtils, TLCExt
Traces == ndJsonDeserialize(IOEnv.TRACE_FILE)
VARIABLES t, l
tvars == <<vars, t, l>>
Ev == Traces[t].ev
E == Ev[l]
AsSet(s) == {s[n] : n \in 1..Len(s)}
Reg(n) == 1000 + n
TInit == /\ t \in 1..Len(Traces) /\ l = 1 /\ pc = "loop" /\ k = 0 /\ act = 1..Traces[t].n /\ ver = [m \in 1..Traces[t].n |-> 0]
         /\ TLCSet(Reg(t), [l |-> 0, k |-> 0])
TrSweep == /\ l <= Len(Ev) /\ pc = "loop" /\ act # {} /\ k < Traces[t].cap
           /\ AsSet(E.changed) \subseteq act                \* Frozen: only active matrices are written
           /\ AsSet(E.after) \subseteq act                  \* Shrinks
           /\ act' = AsSet(E.after) /\ k' = k + 1 /\ k' = E.k
           /\ ver' = [m \in 1..Traces[t].n |-> IF m \in AsSet(E.changed) THEN ver[m] + 1 ELSE ver[m]]
           /\ pc' = "loop" /\ l' = l + 1 /\ t' = t
TSpec == TInit /\ [][TrSweep]_tvars
Track == LET old == TLCGet(Reg(t)) IN (l - 1 > old.l => TLCSet(Reg(t), [l |-> l - 1, k |-> k])) /\ TRUE
Post == /\ \A n \in 1..Len(Traces) : PrintT(ToJson([id |-> Traces[n].id, n |-> Len(Traces[n].ev), r |-> TLCGet(Reg(n))]))
        /\ TRUE
=============================================================================
