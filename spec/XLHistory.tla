----------------------------- MODULE XLHistory -----------------------------
(***************************************************************************)
(* The auxiliary-density history buffer of XL-BOMD                         *)
(*   seqm/MolecularDynamics.py: XL_BOMD.__init__ (coefficient tables),     *)
(*   _propagate_P, the slot write in one_step, initialize (buffer fill),   *)
(*   save_checkpoint (Pt saved, P not), run_from_checkpoint (P := a slot). *)
(*                                                                         *)
(* The recurrence (Niklasson et al., J. Chem. Phys. 130, 214109 (2009),    *)
(* eq. 22, Table I):                                                       *)
(*   P(n+1) = 2P(n) - P(n-1) + kappa (D(n) - P(n)) + alpha SUM_a c_a P(n-a)*)
(* All numbers are integers in units of 1e-5 (alpha*c_a is a multiple of   *)
(* 1e-5 for every order).                                                  *)
(*                                                                         *)
(* A slot holds P(t) for a time index t; `content[j] = t`.  The buffer is  *)
(* filled with P(0) at start, slot j standing in for P(-j).                *)
(***************************************************************************)
EXTENDS Integers, Sequences, FiniteSets, TLC

CONSTANTS
    Orders,       \* set of dissipation orders K explored (subset of 3..9)
    MaxStepsMul,  \* behaviours run for MaxStepsMul * (K+1) + 2 steps
    SlotMode,     \* "rev": slot written = m-1-cindx (as coded); "fwd": = cindx  (mutant)
    ResumeMode,   \* "minus1": cindx = (step_done-1) % m (as coded); "plain": step_done % m (mutant)
    MaxCrash

\* ---- Table I of the paper, transcribed independently of the code ----------------------
Kappa5(k) == CASE k = 3 -> 169000 [] k = 4 -> 175000 [] k = 5 -> 182000 [] k = 6 -> 184000
               [] k = 7 -> 186000 [] k = 8 -> 188000 [] k = 9 -> 189000
Alpha5(k) == CASE k = 3 -> 15000 [] k = 4 -> 5700 [] k = 5 -> 1800 [] k = 6 -> 550
               [] k = 7 -> 160 [] k = 8 -> 44 [] k = 9 -> 12
C(k) == CASE k = 3 -> <<-2, 3, 0, -1>>
          [] k = 4 -> <<-3, 6, -2, -2, 1>>
          [] k = 5 -> <<-6, 14, -8, -3, 4, -1>>
          [] k = 6 -> <<-14, 36, -27, -2, 12, -6, 1>>
          [] k = 7 -> <<-36, 99, -88, 11, 32, -25, 8, -1>>
          [] k = 8 -> <<-99, 286, -286, 78, 78, -90, 42, -10, 1>>
          [] k = 9 -> <<-286, 858, -936, 364, 168, -300, 184, -63, 12, -1>>

\* weight of P(n-a), a = 0..K, in P(n+1), excluding the kappa*D(n) term, units 1e-5
\*   a = 0: 2 - kappa + alpha c0 ;  a = 1: alpha c1 - 1 ;  else alpha c_a
W(k, a) == Alpha5(k) * C(k)[a + 1] + (IF a = 0 THEN 200000 - Kappa5(k) ELSE IF a = 1 THEN -100000 ELSE 0)
\* mixing of the delta function in _propagate_P:  coeff_D * (c D + (1-c) P), c = 0.95 (deviation from the paper, as coded)
WD(k) == (Kappa5(k) * 95) \div 100
WP(k) == (Kappa5(k) * 5) \div 100

RECURSIVE SumTo(_, _)
SumTo(f, n) == IF n = 0 THEN 0 ELSE f[n] + SumTo(f, n - 1)
SumC(k) == SumTo(C(k), k + 1)
SumW(k) == SumTo([a \in 1..(k + 1) |-> W(k, a - 1)], k + 1)

\* fixed point: all history entries equal to X and D = X  =>  P(n+1) = X
SumRule    == \A k \in Orders : SumC(k) = 0
FixedPoint == \A k \in Orders : WD(k) + WP(k) + SumW(k) = 100000
ASSUME SumRule /\ FixedPoint

VARIABLES k, step, content, pidx, pc, crashes, saved, lastw
vars == <<k, step, content, pidx, pc, crashes, saved, lastw>>
M == k + 1
Slots == 0..(M - 1)

Init ==
    /\ k \in Orders
    /\ step = 0
    /\ content = [j \in 0..k |-> -j]      \* XL_BOMD.initialize: every slot := P(0); slot j stands for P(-j)
    /\ pidx = 0                            \* P = P(0)
    /\ pc = "run" /\ crashes = 0
    /\ saved = [done |-> -1, content |-> << >>]
    /\ lastw = [slot |-> -1, w |-> << >>]

CIndx(s) == s % M
Weight(s, j) == W(k, (CIndx(s) + j) % M)          \* coeff[cindx + j], coeff = tmp repeated twice
WSlot(s) == IF SlotMode = "rev" THEN M - 1 - CIndx(s) ELSE CIndx(s)

\* one_step: P := propagate(P, Pt, cindx); Pt[slot] := P
Propagate ==
    /\ pc = "run" /\ step < MaxStepsMul * M + 2
    /\ lastw' = [slot |-> WSlot(step), w |-> [j \in Slots |-> Weight(step, j)]]
    /\ content' = [content EXCEPT ![WSlot(step)] = step + 1]
    /\ pidx' = step + 1
    /\ step' = step + 1
    /\ UNCHANGED <<k, pc, crashes, saved>>

\* save_checkpoint(step_done = step): Pt is saved, P is not
Checkpoint ==
    /\ pc = "run" /\ step > 0
    /\ saved' = [done |-> step, content |-> content]
    /\ UNCHANGED <<k, step, content, pidx, pc, crashes, lastw>>

Crash ==
    /\ pc = "run" /\ crashes < MaxCrash /\ saved.done > 0
    /\ pc' = "dead" /\ crashes' = crashes + 1
    /\ UNCHANGED <<k, step, content, pidx, saved, lastw>>

RCIndx == IF ResumeMode = "minus1" THEN (saved.done - 1) % M ELSE saved.done % M
RSlot  == M - 1 - RCIndx
\* run_from_checkpoint: P := Pt[m-1-cindx]
Resume ==
    /\ pc = "dead"
    /\ content' = saved.content
    /\ step' = saved.done
    /\ pidx' = saved.content[RSlot]
    /\ pc' = "run"
    /\ UNCHANGED <<k, crashes, saved, lastw>>

Next == Propagate \/ Checkpoint \/ Crash \/ Resume
Spec == Init /\ [][Next]_vars

\* ---- properties -------------------------------------------------------------------------
\* (c) the right coefficient on the right history entry at every buffer phase:
\*     when P(step+1) was formed, slot j (holding P(t)) got the weight of age (step - t)
AlignedAt(s, cont, w) == \A j \in Slots : w[j] = W(k, s - cont[j])
\* checked in the state before the write lands: use the action form
Aligned == [][Propagate => AlignedAt(step, content, lastw'.w)]_vars
\* the slot overwritten is the oldest one
OverwriteOldest == [][Propagate => content[lastw'.slot] = step - k]_vars
\* the buffer always holds the K+1 most recent densities, each once
Window == pc = "run" => {content[j] : j \in Slots} = {step - a : a \in 0..k}
\* the running P is the newest density (also right after a resume)
PIsNewest == pc = "run" => pidx = step
=============================================================================
