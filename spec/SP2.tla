--------------------------------- MODULE SP2 ---------------------------------
(***************************************************************************)
(* The SP2 purification loop (seqm/seqm_functions/SP2.py) for a batch of    *)
(* matrices: every sweep squares / reflects the still-active matrices only, *)
(* a matrix leaves the active set when its trace error passed the test      *)
(* twice in a row (numerics: nondeterministic here), the loop ends when the *)
(* set is empty or after Cap sweeps; matrices still active then are rebuilt *)
(* by diagonalisation (fallback).  ver[m] counts writes to matrix m.        *)
(* WriteMode "active" as coded; "all" = finished matrices keep being        *)
(* updated with stale intermediates (mutant).                               *)
(***************************************************************************)
EXTENDS Integers, FiniteSets, Sequences, TLC
CONSTANTS Mat, Cap, WriteMode
VARIABLES pc, k, act, ver
vars == <<pc, k, act, ver>>
Init == pc = "loop" /\ k = 0 /\ act = Mat /\ ver = [m \in Mat |-> 0]
Sweep == /\ pc = "loop" /\ act # {} /\ k < Cap
         /\ ver' = [m \in Mat |-> IF m \in act \/ WriteMode = "all" THEN ver[m] + 1 ELSE ver[m]]
         /\ act' \in SUBSET act /\ k' = k + 1 /\ pc' = "loop"
Leave == /\ pc = "loop" /\ (act = {} \/ k = Cap)
         /\ ver' = [m \in Mat |-> IF m \in act THEN ver[m] + 1 ELSE ver[m]]      \* fallback for what is left
         /\ pc' = "done" /\ UNCHANGED <<k, act>>
Next == Sweep \/ Leave
Spec == Init /\ [][Next]_vars /\ WF_vars(Next)
Frozen == [][\A m \in Mat : m \notin act => ver'[m] = ver[m]]_vars
Shrinks == [][act' \subseteq act]_vars
Bounded == k <= Cap
Terminates == <>(pc = "done")
=============================================================================
