----------------------------- MODULE OptimizerGen -----------------------------
EXTENDS Optimizer, Json, IOUtils, FiniteSetsExt, SequencesExt
ASSUME TLCSet(2, {})
Collect == pc = "done" => TLCSet(2, TLCGet(2) \cup {[x0 |-> x0, tol8 |-> tol8, cap |-> cap, it |-> it, report |-> report,
                                                     fmax |-> ret.fmax, path |-> path, final |-> x, ambiguous |-> Ambiguous, s |-> S, k |-> K]})
Export == ndJsonSerialize(IOEnv.OUT_FILE, SetToSeq(TLCGet(2)))
=============================================================================
