------------------------------- MODULE Guards -------------------------------
(***************************************************************************)
(* Decision table of the input guards on the public path, read off every   *)
(* `raise` in: Molecule.check_input, basics.Parser.forward,                *)
(* basics.Hamiltonian.__init__, basics.Energy.__init__ / forward,           *)
(* scf_loop.SCF.forward, scf_loop.make_Pnew_factory,                        *)
(* MolecularDynamics.initialize (centre-of-mass mode).                      *)
(* A request is a record over finite domains; Verdict(r) is the first guard *)
(* the code reaches (stages are ordered as the code executes them).  There  *)
(* are no transitions: TLC enumerates the table and evaluates the           *)
(* properties on every row; BatchGen-style export feeds one replay per row. *)
(***************************************************************************)
EXTENDS Integers, Sequences, FiniteSets, TLC

VARIABLE r

\* invalid centre-of-mass modes: unrelated word, prefixes / substrings of the valid ones, empty string
BadComModes == {"bogus", "ang", "lin", "", "near"}

Requests ==
  [sorted : {"ok", "reversed", "pad_front", "pad_middle"}, odd : BOOLEAN, uhf : BOOLEAN, mult_ok : BOOLEAN, conv : {0, 1, 2}, sp2 : BOOLEAN,
   exc : {"none", "cis", "rpa", "bogus"}, nstates : BOOLEAN, homog : BOOLEAN, qmix : BOOLEAN, active : {0, 1},       \* qmix: the second molecule carries two electrons less
   com : {"nomd", "none", "linear", "angular"} \cup BadComModes]

\* stages in execution order
StageNo(s) == CASE s = "molecule" -> 1 [] s = "driver" -> 2 [] s = "md_init" -> 3 [] s = "scf" -> 4
                [] s = "energy" -> 5 [] s = "md_step" -> 8 [] s = "accept" -> 7
Rej(stage, cls) == [verdict |-> "reject", stage |-> stage, cls |-> cls]
Accept == [verdict |-> "accept", stage |-> "accept", cls |-> "-"]

Verdict(q) ==
    IF q.sorted # "ok" THEN Rej("molecule", "ValueError")                 \* check_input (also zero padding in front of / between atoms)
    ELSE IF ~q.uhf /\ q.odd THEN Rej("molecule", "ValueError")             \* Parser: RHF needs even electrons
    ELSE IF q.uhf /\ ~q.mult_ok THEN Rej("molecule", "ValueError")         \* Parser: charge/multiplicity
    ELSE IF q.exc # "none" /\ ~q.nstates THEN Rej("driver", "ValueError")  \* Hamiltonian.__init__
    ELSE IF q.uhf /\ q.exc # "none" THEN Rej("driver", "NotImplementedError")  \* Energy.__init__
    ELSE IF q.com \in BadComModes THEN Rej("md_init", "ValueError")        \* MD initialize, before the first SCF
    ELSE IF q.uhf /\ q.sp2 THEN Rej("scf", "ValueError")                   \* make_Pnew_factory
    ELSE IF q.uhf /\ q.conv = 2 THEN Rej("scf", "NotImplementedError")     \* SCF.forward
    ELSE IF q.active > 0 /\ q.exc = "none" THEN Rej("energy", "Exception") \* after the SCF, before publication
    \* same species but different electron counts: the batched CIS / RPA solvers need equal occupations (rcis_batch, rpa)
    ELSE IF q.exc \in {"cis", "rpa"} /\ q.homog /\ q.qmix THEN Rej("energy", "ValueError")
    ELSE IF q.exc = "bogus" /\ q.homog THEN Rej("energy", "Exception")
    ELSE IF q.exc \in {"rpa", "bogus"} /\ ~q.homog THEN Rej("energy", "NotImplementedError")
    \* forces on an excited active state are analytical and need a homogeneous batch
    ELSE IF q.exc = "cis" /\ ~q.homog /\ q.active > 0 THEN Rej("energy", "NotImplementedError")
    \* (BOMD on the ground-state surface with CIS energies on a heterogeneous batch is accepted: the heterogeneous-batch solver
    \* builds its own starting guess at every step; before the repair it refused the previous amplitudes at the first MD step)
    ELSE Accept

\* the preconditions the property lists as documented
DocViolated(q) ==
    \/ q.sorted # "ok"
    \/ (~q.uhf /\ q.odd)
    \/ (q.uhf /\ ~q.mult_ok)
    \/ (q.uhf /\ (q.sp2 \/ q.conv = 2 \/ q.exc # "none"))
    \/ (q.exc = "rpa" /\ ~q.homog)
    \/ (q.exc \in {"cis", "rpa"} /\ q.homog /\ q.qmix)
    \/ (q.exc = "cis" /\ ~q.homog /\ q.active > 0)
    \/ (q.active > 0 /\ q.exc = "none")
    \/ q.com \in BadComModes

B2N(b) == IF b THEN 1 ELSE 0
\* number of violated preconditions / limitations of a request
Faults(q) == B2N(q.sorted # "ok") + B2N(~q.uhf /\ q.odd) + B2N(q.uhf /\ ~q.mult_ok) + B2N(q.uhf /\ q.sp2) + B2N(q.uhf /\ q.conv = 2)
             + B2N(q.uhf /\ q.exc # "none") + B2N(q.exc # "none" /\ ~q.nstates) + B2N(q.exc = "bogus") + B2N(q.exc = "rpa" /\ ~q.homog) + B2N(q.exc \in {"cis", "rpa"} /\ q.homog /\ q.qmix)
             + B2N(q.exc = "cis" /\ ~q.homog /\ q.active > 0) + B2N(q.active > 0 /\ q.exc = "none") + B2N(q.com \in BadComModes)

Init == r \in Requests
Next == UNCHANGED r
Spec == Init /\ [][Next]_r

\* (a) every documented precondition, violated, is rejected
DocumentedRejected == DocViolated(r) => Verdict(r).verdict = "reject"
\* ... before any result is produced: every rejecting stage precedes publication on the molecule
\* (no late rejection is tolerated; the one that existed - BOMD + CIS on a heterogeneous batch - was repaired)
KnownLate(q) == FALSE
EarlyEnough == (Verdict(r).verdict = "reject" /\ ~KnownLate(r)) => StageNo(Verdict(r).stage) < StageNo("accept")
\* rejections only for a reason: an accepted-by-the-documentation request is rejected only for an
\* implemented-but-undocumented limitation (listed here so that a new one shows up as a diff)
Undocumented(q) == (q.exc # "none" /\ ~q.nstates) \/ q.exc = "bogus"
NoSpuriousReject == Verdict(r).verdict = "reject" => DocViolated(r) \/ Undocumented(r)
=============================================================================
