------------------------------ MODULE SCFTrace ------------------------------
(* Validates recorded SCF executions (hook events scf.begin / scf.iter / scf.end of the real
   solvers) against SCF.  One scf.iter event is one pass BuildDiag|SP2..., Mix, GetError of the
   model; the logged booleans bind the model's nondeterministic choices, and the model's mask,
   density versions (from per-molecule digests), iteration count, exit reason and returned
   flags must equal the logged ones.  Events of a trace:
     iter  active, new (sets of molecule indices), ebad, dbad, dmbad, elbad (sets), changed (set of
           molecules whose density digest changed since the previous event)
     end   ret (set), changed
   Trace record: id, nmol, cap (iterations the outer loop may run), diis (bool).               *)
EXTENDS SCF, Sequences, Json, IOUtils, TLCExt

Traces == ndJsonDeserialize(IOEnv.TRACE_FILE)
VARIABLES t, l
tvars == <<vars, t, l>>
Ev == Traces[t].ev
E  == Ev[l]
TMol == 1..Traces[t].nmol
AsSet(seq) == {seq[n] : n \in 1..Len(seq)}
Reg(n) == 1000 + n
Consume == l' = l + 1 /\ t' = t

TInit ==
    /\ t \in 1..Len(Traces) /\ l = 1
    /\ pc = "build" /\ k = 0 /\ nc = TMol
    /\ eBad = [m \in TMol |-> TRUE] /\ dmBad = [m \in TMol |-> TRUE] /\ elBad = [m \in TMol |-> TRUE]
    /\ diisBad = [m \in TMol |-> Traces[t].diis]
    /\ pv = [m \in TMol |-> 0] /\ sk = 0 /\ snc = {} /\ ret = {}
    /\ TLCSet(Reg(t), [l |-> 0, k |-> 0, why |-> "-"])

\* the whole iteration as one step, numerical outcomes bound to the log
TrIter ==
    /\ l <= Len(Ev) /\ E.name = "iter"
    /\ pc = "build" /\ nc # {} /\ k < Traces[t].cap
    /\ AsSet(E.active) = nc
    /\ LET e2  == [m \in TMol |-> m \in AsSet(E.ebad)]
           d2  == [m \in TMol |-> m \in AsSet(E.dbad)]
           ev  == {m \in nc : ~(e2[m] \/ d2[m])}
       IN /\ \A m \in TMol \ nc : e2[m] = eBad[m] /\ d2[m] = diisBad[m]   \* stored entries of inactive rows untouched
          /\ AsSet(E.dmeval) = ev
          /\ eBad' = e2 /\ diisBad' = d2
          /\ dmBad' = [m \in TMol |-> m \in AsSet(E.dmbad)]
          /\ elBad' = [m \in TMol |-> m \in AsSet(E.elbad)]
          /\ \A m \in TMol \ ev : dmBad'[m] = dmBad[m] /\ elBad'[m] = elBad[m]
          /\ nc' = {m \in TMol : eBad'[m] \/ diisBad'[m] \/ dmBad'[m] \/ elBad'[m]}
          /\ nc' = AsSet(E.new)
          /\ nc' \subseteq nc                   \* NoReactivation on the observed execution
    /\ AsSet(E.changed) \subseteq nc            \* Frozen: only active rows may change
    /\ pv' = [m \in TMol |-> IF m \in AsSet(E.changed) THEN pv[m] + 1 ELSE pv[m]]
    /\ k' = k + 1
    /\ UNCHANGED <<pc, sk, snc, ret>> /\ Consume

TrEnd ==
    /\ l <= Len(Ev) /\ E.name = "end"
    /\ pc = "build" /\ (nc = {} \/ k >= Traces[t].cap - 1)   \* left because converged, or the cap was really reached
    /\ AsSet(E.changed) = {}
    /\ ret' = nc /\ ret' = AsSet(E.ret) /\ pc' = "exit"
    /\ UNCHANGED <<k, nc, eBad, diisBad, dmBad, elBad, pv, sk, snc>> /\ Consume

TNext == TrIter \/ TrEnd
TSpec == TInit /\ [][TNext]_tvars

AllOKt(m) == ~eBad[m] /\ ~diisBad[m] /\ ~dmBad[m] /\ ~elBad[m]
Why == IF k > 0 /\ ~(\A m \in TMol : (m \notin nc) <=> AllOKt(m)) THEN "MaskTruthful"
       ELSE IF pc = "exit" /\ ~(\A m \in TMol : (m \notin ret) <=> AllOKt(m)) THEN "FlagTruthful"
       ELSE IF k > Traces[t].cap THEN "Bounded" ELSE "-"
Track ==
    LET old == TLCGet(Reg(t)) IN
    /\ (l - 1 > old.l \/ (Why # "-" /\ old.why = "-")) =>
          TLCSet(Reg(t), [l |-> IF l - 1 > old.l THEN l - 1 ELSE old.l, k |-> k,
                          why |-> IF old.why # "-" THEN old.why ELSE Why])
    /\ TRUE
Post == /\ \A n \in 1..Len(Traces) :
             PrintT(ToJson([id |-> Traces[n].id, n |-> Len(Traces[n].ev), r |-> TLCGet(Reg(n))]))
        /\ TRUE
=============================================================================
