------------------------------ MODULE VVExact ------------------------------
(***************************************************************************)
(* The velocity-Verlet step and its Langevin wrapping (O - B A F B - O)     *)
(* made exact.                                                              *)
(*   seqm/MolecularDynamics.py: Molecular_Dynamics_Basic.one_step,          *)
(*   Molecular_Dynamics_Langevin.one_step / _apply_langevin_thermostat.     *)
(* NP particles in 3-D, masses in {1,2}, time step dt = 1/2, linear pair    *)
(* springs F_i = -K SUM_j (x_i - x_j) plus an optional constant field G.    *)
(* Every number is a dyadic rational kept as an integer times 2^-e with a   *)
(* common exponent e; a step first raises e (7 for NVE, 9 for Langevin) so  *)
(* that each division below is exact (checked by the invariant Exact).      *)
(*   B  v <- v + (f/m) dt/2     half kick with the force currently held     *)
(*   A  x <- x + v dt           drift                                       *)
(*   F  f <- Force(x)           force at the new positions                  *)
(*   O  v <- c1 v + c2 xi       c1 in {1, 1/2}; c2 = NoiseAmp/m; xi = +-1   *)
(* StepOrder: "BAFB" as coded; mutants "ABFB" (drift before the first kick), *)
(* "BAFB_stale" (second kick with the old force), "O_once" (second O left    *)
(* out) are refuted by the properties / by the replay of the real code.     *)
(***************************************************************************)
EXTENDS Integers, Sequences, FiniteSets, TLC

CONSTANTS NP, MassSet, VelSet, PosSet, K, FieldSet, Steps, Engine, C1, NoiseAmp, PatSet, StepOrder, Flip

Part == 1..NP
Dim  == 1..3
VARIABLES m, x, v, f, e, n, q, g, pat, hist, exact, flipped
vars == <<m, x, v, f, e, n, q, g, pat, hist, exact, flipped>>

RECURSIVE P2(_)
P2(k) == IF k = 0 THEN 1 ELSE 2 * P2(k - 1)
SumX(xx, d) == xx[1][d] + (IF NP >= 2 THEN xx[2][d] ELSE 0) + (IF NP >= 3 THEN xx[3][d] ELSE 0)
\* force at exponent ee: the field G is a physical constant, so its integer image is g * 2^ee
Force(xx, ee) == [i \in Part |-> [d \in Dim |-> g[d] * P2(ee) - K * (NP * xx[i][d] - SumX(xx, d))]]
Mul(vec, s) == [i \in Part |-> [d \in Dim |-> vec[i][d] * s]]
Xi(qq, i, d) == IF (qq * pat + i + d) % 2 = 0 THEN 1 ELSE -1

Init ==
    /\ m \in [Part -> MassSet] /\ x \in PosSet /\ v \in [Part -> VelSet]
    /\ g \in FieldSet /\ pat \in PatSet
    /\ f = [i \in Part |-> [d \in Dim |-> g[d] - K * (NP * x[i][d] - SumX(x, d))]]
    /\ e = 0 /\ n = 0 /\ q = 0 /\ exact = TRUE /\ flipped = FALSE
    /\ hist = <<[x |-> x, v |-> v, e |-> 0]>>

\* ---- operators on a record [x, v, f, e, ok] ---------------------------------------------------
Div(a, b, st) == a \div b
Kick(st) == [st EXCEPT !.v = [i \in Part |-> [d \in Dim |-> st.v[i][d] + st.f[i][d] \div (4 * m[i])]],
                       !.ok = st.ok /\ \A i \in Part : \A d \in Dim : st.f[i][d] % (4 * m[i]) = 0]
Drift(st) == [st EXCEPT !.x = [i \in Part |-> [d \in Dim |-> st.x[i][d] + st.v[i][d] \div 2]],
                        !.ok = st.ok /\ \A i \in Part : \A d \in Dim : st.v[i][d] % 2 = 0]
Frc(st)  == [st EXCEPT !.f = Force(st.x, st.e)]
Rescale(st, k) == [x |-> Mul(st.x, P2(k)), v |-> Mul(st.v, P2(k)), f |-> Mul(st.f, P2(k)), e |-> st.e + k, ok |-> st.ok]
OStep(st, qq) ==
    [st EXCEPT !.v = [i \in Part |-> [d \in Dim |->
                        (IF C1 = "half" THEN st.v[i][d] \div 2 ELSE st.v[i][d])
                        + (NoiseAmp * Xi(qq, i, d) * P2(st.e)) \div m[i]]],
               !.ok = st.ok /\ (C1 = "half" => \A i \in Part : \A d \in Dim : st.v[i][d] % 2 = 0)]

Cur == [x |-> x, v |-> v, f |-> f, e |-> e, ok |-> exact]
BAFB(st) ==
    CASE StepOrder = "ABFB"       -> Kick(Frc(Kick(Drift(st))))     \* (mutant) drift first
      [] StepOrder = "BAFB_stale" -> LET a == Drift(Kick(st)) IN [Kick(a) EXCEPT !.f = Frc(a).f]   \* (mutant) stale force in 2nd kick
      [] OTHER                    -> Kick(Frc(Drift(Kick(st))))
NewState ==
    IF Engine = "nve" THEN BAFB(Rescale(Cur, 7))
    ELSE IF StepOrder = "O_once" THEN BAFB(OStep(Rescale(Cur, 9), q))
    ELSE OStep(BAFB(OStep(Rescale(Cur, 9), q)), q + 1)

Step ==
    /\ n < Steps
    /\ LET r == NewState IN
         /\ x' = r.x /\ v' = r.v /\ f' = r.f /\ e' = r.e /\ exact' = r.ok
         /\ hist' = Append(hist, [x |-> r.x, v |-> r.v, e |-> r.e])
    /\ n' = n + 1 /\ q' = (IF Engine = "nve" THEN q ELSE q + 2)
    /\ UNCHANGED <<m, g, pat, flipped>>

\* time reversal probe: after the first step negate the velocities once
FlipV ==
    /\ Flip /\ ~flipped /\ n = 1 /\ Steps >= 2
    /\ v' = [i \in Part |-> [d \in Dim |-> -v[i][d]]] /\ flipped' = TRUE
    /\ UNCHANGED <<m, x, f, e, n, q, g, pat, hist, exact>>

Next == Step \/ FlipV
Spec == Init /\ [][Next]_vars

\* ---- properties --------------------------------------------------------------------------------
Exact == exact                                   \* the model's arithmetic never rounded
Mom(vv, d)  == m[1] * vv[1][d] + (IF NP >= 2 THEN m[2] * vv[2][d] ELSE 0) + (IF NP >= 3 THEN m[3] * vv[3][d] ELSE 0)
\* (b) linear momentum: conserved without field and thermostat (compare at the common exponent)
MomentumConserved ==
    (Engine = "nve" /\ g = <<0, 0, 0>>) => \A d \in Dim : Mom(v, d) = Mom(hist[1].v, d) * P2(e) * (IF flipped THEN -1 ELSE 1)
\* angular momentum (products: evaluated only while they fit 32-bit integers, n <= 1)
Cross3(a, b, d) == CASE d = 1 -> a[2] * b[3] - a[3] * b[2] [] d = 2 -> a[3] * b[1] - a[1] * b[3] [] d = 3 -> a[1] * b[2] - a[2] * b[1]
Ang(xx, vv, d) == m[1] * Cross3(xx[1], vv[1], d) + (IF NP >= 2 THEN m[2] * Cross3(xx[2], vv[2], d) ELSE 0)
                    + (IF NP >= 3 THEN m[3] * Cross3(xx[3], vv[3], d) ELSE 0)
AngularConserved ==
    (Engine = "nve" /\ g = <<0, 0, 0>> /\ n = 1 /\ ~flipped) =>
        \A d \in Dim : Ang(x, v, d) = Ang(hist[1].x, hist[1].v, d) * P2(e) * P2(e)
\* (c) time reversibility: step, flip, step  returns to the start with reversed velocities
Reversible ==
    (Engine = "nve" /\ flipped /\ n = 2) =>
        /\ x = Mul(hist[1].x, P2(e)) /\ v = [i \in Part |-> [d \in Dim |-> -hist[1].v[i][d] * P2(e)]]
\* C12 (b): with c1 = 1 and no noise the thermostatted step IS the NVE step (checked by comparing two TLC runs
\* through the exported behaviours; here: the O operator is the identity)
OIdentity == (C1 = "one" /\ NoiseAmp = 0) => \A i \in Part : \A d \in Dim : OStep(Cur, q).v[i][d] = v[i][d]
\* C12 (c): at zero temperature (no noise) an O operator never increases any velocity component's magnitude
ODissipates == (NoiseAmp = 0) => \A i \in Part : \A d \in Dim :
                   LET o == OStep([Cur EXCEPT !.v = Mul(v, 2)], q).v[i][d] IN (o <= 2 * v[i][d] /\ o >= 0) \/ (o >= 2 * v[i][d] /\ o <= 0)
=============================================================================
