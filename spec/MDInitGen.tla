------------------------------ MODULE MDInitGen ------------------------------
EXTENDS MDInit, Json, IOUtils, FiniteSetsExt, SequencesExt
ASSUME TLCSet(2, {})
Collect == pc = "done" => TLCSet(2, TLCGet(2) \cup {[cfg |-> cfg, dof |-> dof, draws |-> rng.draws, origin |-> rng.origin,
                                                      comlog |-> comlog, touched |-> vel.touched, prov |-> vel.prov]})
Export == ndJsonSerialize(IOEnv.OUT_FILE, SetToSeq(TLCGet(2)))
=============================================================================
