-------------------------------- MODULE Pyseqm --------------------------------
(***************************************************************************)
(* Root module: the run loop (MDRun) composed with the state the engines    *)
(* carry from step to step, so that "the resumed run is in the same state   *)
(* as the uninterrupted one" is DERIVED from what the checkpoint stores and  *)
(* restores instead of being assumed (MDRun's constant ResumeExact):         *)
(*   - XL-BOMD history buffer (XLHistory): propagated once per integrator    *)
(*     step, stored in the checkpoint (Pt), P re-derived from a slot on      *)
(*     resume;                                                               *)
(*   - the random-number stream: two thermostat draws per step for damped    *)
(*     engines, stream state stored in the checkpoint and restored.          *)
(* Composition: each MDRun action is conjoined with the engine-state action  *)
(* the code performs in the same critical section.                           *)
(*   RngMode "restore" (as coded) | "fresh" (mutant: _restore_rng dropped)    *)
(***************************************************************************)
EXTENDS MDRun

CONSTANTS K, Damped, XSlotMode, XResumeMode, RngMode

VARIABLES xk, xstep, xcontent, xpidx, xpc, xcrashes, xsaved, xlastw, rng, rngsaved
xvars == <<xk, xstep, xcontent, xpidx, xpc, xcrashes, xsaved, xlastw>>
allvars == <<vars, xvars, rng, rngsaved>>

XL == INSTANCE XLHistory WITH Orders <- {K}, MaxStepsMul <- 1000, SlotMode <- XSlotMode, ResumeMode <- XResumeMode, MaxCrash <- 1000,
                              k <- xk, step <- xstep, content <- xcontent, pidx <- xpidx, pc <- xpc, crashes <- xcrashes, saved <- xsaved, lastw <- xlastw

PInit == Init /\ XL!Init /\ rng = 0 /\ rngsaved = 0

Keep == UNCHANGED <<xvars, rng, rngsaved>>
\* one_step: thermostat draw, ..., propagate the auxiliary density, ..., thermostat draw
PIntegrate == Integrate /\ XL!Propagate /\ rng' = rng + (IF Damped THEN 2 ELSE 0) /\ UNCHANGED rngsaved
\* save_checkpoint(step_done = i + 1): Pt and the RNG state go into the file that is then renamed
PReplace == Replace /\ XL!Checkpoint /\ rngsaved' = rng /\ UNCHANGED rng
PCrash == (SoftCrash \/ HardCrash) /\ xpc' = "dead" /\ UNCHANGED <<xk, xstep, xcontent, xpidx, xcrashes, xsaved, xlastw, rng, rngsaved>>
\* run_from_checkpoint: Pt restored, P := slot, RNG state restored
PResume == Resume /\ XL!Resume /\ rng' = (IF RngMode = "restore" THEN rngsaved ELSE 0) /\ UNCHANGED rngsaved
POther == (Fresh \/ AppendNa \/ StepDone \/ Screen \/ DataSkip \/ DataMid \/ DataFull \/ AppendVec \/ AppendXyz
           \/ FlushH5 \/ FlushXyz \/ TmpPartial \/ TmpComplete \/ NextIter \/ Finish) /\ Keep
PNext == PIntegrate \/ PReplace \/ PCrash \/ PResume \/ POther
PSpec == PInit /\ [][PNext]_allvars /\ WF_allvars(PNext)

\* steps the engine state has completed, as seen from the loop position
Done == i + (IF pc \in {"step", "fresh", "dead", "done"} THEN 0 ELSE 1)
\* the engine state is the one of the uninterrupted run at the same step: newest density index, the k+1 most recent
\* densities in the buffer, the stream position
EngineStateExact ==
    (Running \/ pc = "done") =>
        /\ xstep = Done /\ xpidx = Done
        /\ {xcontent[j] : j \in 0..K} = {Done - a : a \in 0..K}
        /\ rng = (IF Damped THEN 2 * Done ELSE 0)
Aligned == XL!Aligned
PFinishes == <>(pc = "done" \/ (pc = "dead" /\ ckpt.done < 0))
=============================================================================
