------------------------------ MODULE BatchGen ------------------------------
(* Exports every batch with the index arrays the specification computes for it. *)
EXTENDS Batch, Json, IOUtils, FiniteSetsExt, SequencesExt
ASSUME TLCSet(2, {})
Seq0(f, n) == [k \in 1..n |-> f[k - 1]]
Rec(b) == [sp |-> b.sp, cut2 |-> b.cut2, pos |-> b.pos,
           Z |-> Seq0(Zs(b), NReal(b)), maskd |-> Seq0(MaskD(b), NReal(b)), atom_molid |-> Seq0(AtomMol(b), NReal(b)),
           idxi |-> Seq0(IdxI(b), NPairs(b)), idxj |-> Seq0(IdxJ(b), NPairs(b)),
           mask |-> Seq0(Mask(b), NPairs(b)), mask_l |-> Seq0(MaskL(b), NPairs(b)), pair_molid |-> Seq0(PairMol(b), NPairs(b)),
           nheavy |-> NHeavy(b), nhydro |-> NHydro(b), nocc |-> NOcc(b), odd |-> OddRow(b)]
Collect == TLCSet(2, TLCGet(2) \cup {Rec(B)})
Export  == ndJsonSerialize(IOEnv.OUT_FILE, SetToSeq(TLCGet(2)))
PackMax == 5      \* the pack map is exported for molecules of up to PackMax atoms (independent of the batch lattice)
PackTable == [nh \in 0..MaxSize |-> [ny \in 0..MaxSize |-> [u \in 0..(4 * MaxSize - 1) |-> PackIdx(nh, ny, u)]]]
ExportPack == ndJsonSerialize(IOEnv.OUT_FILE2, <<[t |-> [nh \in 1..(PackMax + 1) |-> [ny \in 1..(PackMax + 1) |-> [u \in 1..(4 * PackMax) |-> PackIdx(nh - 1, ny - 1, u - 1)]]]]>>)
Post == Export /\ ExportPack
=============================================================================
