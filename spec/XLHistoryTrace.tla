--------------------------- MODULE XLHistoryTrace ---------------------------
(* Validates traces of the real XL_BOMD / KSA_XL_BOMD history handling against XLHistory.
   Events (recorded by drivers/xl_driver.py around the real one_step / _propagate_P /
   run_from_checkpoint):
     prop   step, cindx, w (decoded weight per slot, 1e-5 units), wd, wp, slot (slot that changed)
     ckpt   done
     crash
     resume done, slot (the slot the resumed P is equal to)                                  *)
EXTENDS XLHistory, Json, IOUtils, TLCExt

Traces == ndJsonDeserialize(IOEnv.TRACE_FILE)
VARIABLES t, l
tvars == <<vars, t, l>>
Ev == Traces[t].ev
E  == Ev[l]
IsEv(n) == l <= Len(Ev) /\ E.name = n
Consume == l' = l + 1 /\ t' = t
Reg(n) == 1000 + n

TInit ==
    /\ t \in 1..Len(Traces) /\ l = 1
    /\ k = Traces[t].k
    /\ step = 0 /\ content = [j \in 0..k |-> -j] /\ pidx = 0 /\ pc = "run" /\ crashes = 0
    /\ saved = [done |-> -1, content |-> << >>] /\ lastw = [slot |-> -1, w |-> << >>]
    /\ TLCSet(Reg(t), [l |-> 0, step |-> -1, why |-> "-"])

KSA == Traces[t].ksa
TrProp ==
    /\ IsEv("prop") /\ E.step = step /\ E.cindx = CIndx(step)
    /\ Propagate
    /\ lastw'.slot = E.slot
    /\ \A j \in Slots : lastw'.w[j] = E.w[j + 1]
    /\ E.wd = (IF KSA THEN Kappa5(k) ELSE WD(k)) /\ E.wp = (IF KSA THEN Kappa5(k) ELSE WP(k))
    /\ Consume
TrCkpt   == IsEv("ckpt") /\ E.done = step /\ Checkpoint /\ Consume
TrCrash  == IsEv("crash") /\ Crash /\ Consume
TrResume == IsEv("resume") /\ E.done = saved.done /\ Resume /\ E.slot = RSlot /\ Consume
TNext == TrProp \/ TrCkpt \/ TrCrash \/ TrResume
TSpec == TInit /\ [][TNext]_tvars

Why == IF ~Window THEN "Window" ELSE IF ~PIsNewest THEN "PIsNewest" ELSE "-"
Track ==
    LET old == TLCGet(Reg(t)) IN
    /\ (l - 1 > old.l \/ (Why # "-" /\ old.why = "-")) =>
          TLCSet(Reg(t), [l |-> IF l - 1 > old.l THEN l - 1 ELSE old.l, step |-> step,
                          why |-> IF old.why # "-" THEN old.why ELSE Why])
    /\ TRUE
Post == /\ \A n \in 1..Len(Traces) :
             PrintT(ToJson([id |-> Traces[n].id, n |-> Len(Traces[n].ev), r |-> TLCGet(Reg(n))]))
        /\ TRUE
=============================================================================
