----------------------------- MODULE SCFHistoryGen -----------------------------
EXTENDS SCFHistory, Json, IOUtils, FiniteSetsExt, SequencesExt
ASSUME TLCSet(2, {})
Collect == (Len(walk) = MaxLen) => TLCSet(2, TLCGet(2) \cup {walk})
Export == ndJsonSerialize(IOEnv.OUT_FILE, SetToSeq({[walk |-> w] : w \in TLCGet(2)}))
=============================================================================
