----------------------------- MODULE SessionGen -----------------------------
(* Exports every history of Session (with the hidden state the model expects after it). *)
EXTENDS Session, Json, IOUtils, FiniteSetsExt, SequencesExt
ASSUME TLCSet(2, {})
SetSeq(S) == SetToSeq(S)
HistJ == [n \in 1..Len(hist) |-> IF hist[n][1] = "fwd" THEN [op |-> "fwd", job |-> hist[n][2], jobs |-> << >>]
                                 ELSE [op |-> "bwd", job |-> "-", jobs |-> SetSeq(hist[n][2])]]
Rec == [hist |-> HistJ,
        scfcls |-> scfcls,
        delems |-> [d \in Dicts |-> SetSeq(delems[d])],
        pending |-> SetSeq(pending)]
Collect == (Len(hist) > 0) => TLCSet(2, TLCGet(2) \cup {Rec})
Export  == ndJsonSerialize(IOEnv.OUT_FILE, SetToSeq(TLCGet(2)))
=============================================================================
