------------------------------ MODULE PyseqmMC ------------------------------
EXTENDS Pyseqm
CONSTANTS StepsSet, CkptSet
Lat == {[steps |-> n, cad |-> [s \in H5Streams |-> IF s = "data" THEN 1 ELSE 0], xyz |-> 0, ckpt |-> c, print |-> 0] : n \in StepsSet, c \in CkptSet}
=============================================================================
