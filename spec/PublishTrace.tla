----------------------------- MODULE PublishTrace -----------------------------
(* Evaluates the Publish identities and the currency rule on records logged from the real API. *)
EXTENDS Publish, Json, IOUtils, TLCExt
Recs == ndJsonDeserialize(IOEnv.TRACE_FILE)
VARIABLE t
Reg(n) == 1000 + n
AsSet(s) == {s[n] : n \in 1..Len(s)}
Why(r) == IF ~EnergySum(r) THEN "EnergySum" ELSE IF ~HeatOK(r) THEN "HeatOK" ELSE IF ~GapOK(r) THEN "GapOK"
          ELSE IF ~Ascending(r) THEN "Ascending" ELSE IF ~ChargeSum(r) THEN "ChargeSum" ELSE IF ~ChargeDef(r) THEN "ChargeDef"
          ELSE IF ~ElectronCount(r) THEN "ElectronCount" ELSE IF ~TransOK(r) THEN "TransOK" ELSE IF ~Aufbau(r) THEN "Aufbau" ELSE IF ~EigOK(r) THEN "EigOK" ELSE IF ~RotOK(r) THEN "RotOK" ELSE IF ~DipoleFormula(r) THEN "DipoleFormula" ELSE IF ~AllForcesOK(r) THEN "AllForcesOK"
          ELSE IF ~(Published(r.path) \subseteq AsSet(r.fresh)) THEN "Current" ELSE "-"
TInit == t \in 1..Len(Recs) /\ gen = [a \in Attrs |-> 0] /\ calls = 0 /\ TLCSet(Reg(t), Why(Recs[t]))
TNext == UNCHANGED <<vars, t>>
TSpec == TInit /\ [][TNext]_<<vars, t>>
Post == /\ \A n \in 1..Len(Recs) : PrintT(ToJson([id |-> Recs[n].id, why |-> TLCGet(Reg(n))]))
        /\ TRUE
=============================================================================
