----------------------------- MODULE GuardsGen -----------------------------
EXTENDS Guards, Json, IOUtils, FiniteSetsExt, SequencesExt
ASSUME TLCSet(2, {})
CONSTANT ExportMod
\* all accepted and single-fault rows, and every ExportMod-th row with several faults
Collect == (Faults(r) <= 1 \/ TLCGet("distinct") % ExportMod = 0) => TLCSet(2, TLCGet(2) \cup {[req |-> r, verdict |-> Verdict(r), doc |-> DocViolated(r), faults |-> Faults(r)]})
Export  == ndJsonSerialize(IOEnv.OUT_FILE, SetToSeq(TLCGet(2)))
=============================================================================
