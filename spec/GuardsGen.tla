----------------------------- MODULE GuardsGen -----------------------------
EXTENDS Guards, Json, IOUtils, FiniteSetsExt, SequencesExt
ASSUME TLCSet(2, {})
Collect == TLCSet(2, TLCGet(2) \cup {[req |-> r, verdict |-> Verdict(r), doc |-> DocViolated(r)]})
Export  == ndJsonSerialize(IOEnv.OUT_FILE, SetToSeq(TLCGet(2)))
=============================================================================
