------------------------------ MODULE Thermostat ------------------------------
(***************************************************************************)
(* Life cycle of the Langevin coefficients on an MD driver object and the   *)
(* identities the whole-step stochastic velocity map must satisfy.          *)
(*   seqm/MolecularDynamics.py: Molecular_Dynamics_Langevin.initialize       *)
(*   (c1, c2 recomputed from timestep, damp, Temp and the batch's masses by  *)
(*   every run), _apply_langevin_thermostat, one_step of the inheriting      *)
(*   engines (XL_BOMD, KSA_XL_BOMD, surface hopping).                        *)
(* A driver object is configured (timestep, damping time, temperature) and   *)
(* then run on a batch; the user may change Temp / damp / timestep or pass   *)
(* another batch (other masses, other padding layout) between runs.          *)
(* CoeffCurrent: the coefficients a step uses were computed from the         *)
(* configuration and batch of THAT run.                                      *)
(* With zero forces one step is the affine map  v' = a v + SUM_k g_k xi_k    *)
(* (xi_k: the normal draws of the step).  The driver measures a and g_k of   *)
(* the real step per atom; TLC evaluates on those fixed-point numbers        *)
(* (1e-9):   FDT   SUM g_k^2 = (kT/m)(1 - a^2)        (ratio = 1)            *)
(*           ZeroT T = 0  =>  g = 0 and 0 < a <= 1   (only removes energy)   *)
(*           NVELimit damp = infinity => a = 1, g = 0                         *)
(*           Isotropic, PaddingAtRest, TwoDraws                               *)
(***************************************************************************)
EXTENDS Integers, Sequences, FiniteSets, TLC

CONSTANT CacheMode   \* "none": as coded, every initialize recomputes | "keyed": cached under (dt, damp, batch shape) - a deviation

Temps == {0, 1, 2}
Damps == {1, 2}
Batches == {"x", "y", "yx"}                     \* "y" and "yx" have the same shape (rows swapped)
Shape(b) == IF b = "x" THEN 1 ELSE 2
Cfgs == [temp : Temps, damp : Damps, batch : Batches]

VARIABLES cfg, coeff, cache, pc, runs
vars == <<cfg, coeff, cache, pc, runs>>
None == [temp |-> -1, damp |-> -1, batch |-> "-"]
Key(c) == <<c.damp, Shape(c.batch)>>

Init == cfg \in Cfgs /\ coeff = None /\ cache = {} /\ pc = "idle" /\ runs = 0
\* the user edits md.Temp / md.damp or hands over another batch
Reconfigure == pc = "idle" /\ cfg' \in Cfgs /\ UNCHANGED <<coeff, cache, pc, runs>>
\* run() -> initialize(): coefficients for this run
Initialize ==
    /\ pc = "idle" /\ runs < 3
    /\ IF CacheMode = "keyed" /\ \E e \in cache : e[1] = Key(cfg)
         THEN /\ coeff' = (CHOOSE e \in cache : e[1] = Key(cfg))[2] /\ cache' = cache
         ELSE /\ coeff' = cfg /\ cache' = IF CacheMode = "keyed" THEN cache \cup {<<Key(cfg), cfg>>} ELSE cache
    /\ pc' = "run" /\ UNCHANGED <<cfg, runs>>
Step == pc = "run" /\ UNCHANGED vars
Finish == pc = "run" /\ pc' = "idle" /\ runs' = runs + 1 /\ UNCHANGED <<cfg, coeff, cache>>
Next == Reconfigure \/ Initialize \/ Finish
Spec == Init /\ [][Next]_vars
CoeffCurrent == pc = "run" => coeff = cfg

\* ---- identities on one measured record r (integers, 1e-9) ---------------------------------
Abs(x) == IF x < 0 THEN -x ELSE x
One == 1000000000
FdtTol == 3000
Friction(r)  == r.a9 > 0 /\ r.a9 <= One
FDT(r)       == (r.temp > 0 /\ ~r.inf) => Abs(r.ratio9 - One) <= FdtTol
ZeroT(r)     == r.temp = 0 => r.gsum9 = 0
NVELimit(r)  == r.inf => r.a9 = One /\ r.gsum9 <= 5
Isotropic(r) == r.iso9 <= 2
PaddingAtRest(r) == r.pad9 = 0
TwoDraws(r)  == r.draws = (IF r.level = "step" THEN 2 ELSE 1)   \* "operator": one O operator measured on its own
\* one MD step makes at least the two thermostat draws, and no two normal draws of a step are the same numbers (white noise)
StepNoise(r) == r.stepdraws >= 2 /\ r.distinct      \* (surface hopping draws one more variate outside the thermostat)
=============================================================================
