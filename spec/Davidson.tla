-------------------------------- MODULE Davidson --------------------------------
(***************************************************************************)
(* Per-molecule bookkeeping of the batched Davidson solver                  *)
(*   seqm/seqm_functions/rcis_batch.py: rcis_batch main loop.                *)
(* Per molecule: current block [vstart, vend) of the subspace, done flag;    *)
(* per iteration the numerics decide nnc[m] (roots whose residual is above   *)
(* tolerance) and how many of the new correction vectors survive             *)
(* orthogonalisation.  As coded: a molecule is finished when nnc = 0, the    *)
(* subspace collapses to NRoots vectors when it would exceed MaxSub, and a   *)
(* molecule whose correction vectors ALL vanish is marked done although      *)
(* nnc > 0 (StagnationExit - named, so that traces taking it are visible).   *)
(* The loop ends when all are done; more than MaxIt iterations raise.        *)
(***************************************************************************)
EXTENDS Integers, FiniteSets, Sequences, TLC
CONSTANTS Mol, NRoots, MaxSub, MaxIt, NStart, AllowStagnation
VARIABLES it, vstart, vend, done, conv, pc
vars == <<it, vstart, vend, done, conv, pc>>
Init == /\ it = 0 /\ vstart = [m \in Mol |-> 0] /\ vend = [m \in Mol |-> NStart]
        /\ done = [m \in Mol |-> FALSE] /\ conv = [m \in Mol |-> FALSE] /\ pc = "loop"
Active == {m \in Mol : ~done[m]}
Iterate ==
    /\ pc = "loop" /\ it <= MaxIt
    /\ \E nnc \in [Active -> 0..NRoots], surv \in [Active -> 0..NRoots] :
         /\ \A m \in Active : surv[m] <= nnc[m] /\ (nnc[m] > 0 /\ ~AllowStagnation => surv[m] > 0)
         /\ LET fin == {m \in Active : nnc[m] = 0}
                coll == {m \in Active \ fin : nnc[m] + vend[m] > MaxSub}
                stag == {m \in Active \ fin : surv[m] = 0}
                base == [m \in Mol |-> IF m \in coll THEN NRoots ELSE vend[m]]
            IN /\ (coll # {} /\ it = 0) => FALSE            \* raises "insufficient memory" - not modelled further
               /\ vstart' = [m \in Mol |-> IF m \in Active \ fin THEN base[m] ELSE vstart[m]]
               /\ vend' = [m \in Mol |-> IF m \in Active \ fin THEN base[m] + surv[m] ELSE vend[m]]
               /\ done' = [m \in Mol |-> done[m] \/ m \in fin \/ m \in stag]
               /\ conv' = [m \in Mol |-> conv[m] \/ m \in fin]
    /\ it' = it + 1
    /\ pc' = IF \A m \in Mol : done'[m] THEN "return" ELSE IF it' > MaxIt THEN "raise" ELSE "loop"
Next == Iterate
Spec == Init /\ [][Next]_vars /\ WF_vars(Next)
\* (b) a finished molecule had all its roots below tolerance when it finished
DoneMeansConverged == \A m \in Mol : done[m] => conv[m]
SubspaceBound == \A m \in Mol : vend[m] <= MaxSub /\ vstart[m] <= vend[m]
\* the cap raises, it never returns unconverged results
CapRaises == (pc = "return" => \A m \in Mol : done[m]) /\ (it > MaxIt /\ pc # "return" => pc = "raise")
Frozen == [][\A m \in Mol : done[m] => (done'[m] /\ vstart'[m] = vstart[m] /\ vend'[m] = vend[m])]_vars
Terminates == <>(pc \in {"return", "raise"})
=============================================================================
