------------------------------- MODULE MDInit -------------------------------
(***************************************************************************)
(* Prologue of an MD run: seeding, degrees of freedom, initial velocities,  *)
(* periodic centre-of-mass removal, random-number bookkeeping.               *)
(*   seqm/MolecularDynamics.py: run (torch.manual_seed first), initialize,   *)
(*   set_dof of the three engine families, initialize_velocity, _zero_com,   *)
(*   the COM test `i % stride == 0` in the run loop (loop index i, as coded),*)
(*   the two thermostat draws per step of the damped engines.                *)
(***************************************************************************)
EXTENDS Integers, Sequences, FiniteSets, TLC

CONSTANTS Steps, Stride, N1, N2,   \* N1, N2: atoms of the two molecules of the batch
          SeedMode,     \* "first": manual_seed before anything else (as coded); "late": after initialize (mutant)
          UserVelMode   \* "asis" (design / fixed code) ; "strip" (rigid-body components removed, as shipped before the fix)

Engines == {"basic", "langevin", "xl", "xl_damped"}
ComModes == {"none", "linear", "angular"}
VelSrc == {"user", "temp0", "drawn"}
Seeds == {"none", "s1", "s2"}
Priors == {0, 17}

VARIABLES cfg, pc, i, rng, vel, dof, comlog
vars == <<cfg, pc, i, rng, vel, dof, comlog>>

Damped(e) == e \in {"langevin", "xl_damped"}
Init ==
    /\ cfg \in [engine : Engines, com : ComModes, velsrc : VelSrc, seed : Seeds, prior : Priors]
    /\ pc = "seed" /\ i = 0
    /\ rng = [origin |-> "hist", draws |-> cfg.prior]     \* process RNG: some history, `prior` variates consumed
    /\ vel = [prov |-> IF cfg.velsrc = "user" THEN "user" ELSE "none", touched |-> FALSE]
    /\ dof = << >> /\ comlog = << >>

\* run(): seed != None => torch.manual_seed(seed)
SetSeed ==
    /\ pc = "seed"
    /\ rng' = IF cfg.seed # "none" /\ SeedMode = "first" THEN [origin |-> cfg.seed, draws |-> 0] ELSE rng
    /\ pc' = "dof" /\ UNCHANGED <<cfg, i, vel, dof, comlog>>
\* initialize(): constraints by COM mode, engine-specific set_dof
\* rotations removed with the angular momentum: 3 in general, 2 for a diatomic (always linear), none for an atom
Rot(n) == IF n > 2 THEN 3 ELSE IF n = 2 THEN 2 ELSE 0
Constraints(n) == CASE cfg.com = "none" -> 0 [] cfg.com = "linear" -> 3 [] cfg.com = "angular" -> 3 + Rot(n)
DofOne(e, n) == CASE e = "basic" -> 3 * n - Constraints(n)
              [] e = "langevin" -> 3 * n                 \* thermostat feeds all 3N
              [] e = "xl" -> 3 * n - Constraints(n)
              [] e = "xl_damped" -> 3 * n
DofOf(e) == <<DofOne(e, N1), DofOne(e, N2)>>
SetDof == /\ pc = "dof" /\ dof' = DofOf(cfg.engine) /\ pc' = "vel" /\ UNCHANGED <<cfg, i, rng, vel, comlog>>
\* initialize_velocity(): three branches
InitVel ==
    /\ pc = "vel"
    /\ CASE cfg.velsrc = "user"  -> /\ vel' = [prov |-> "user", touched |-> UserVelMode = "strip"] /\ rng' = rng
         [] cfg.velsrc = "temp0" -> /\ vel' = [prov |-> "zero", touched |-> FALSE] /\ rng' = rng
         [] cfg.velsrc = "drawn" -> /\ vel' = [prov |-> "drawn", touched |-> TRUE]      \* rescale to T, remove COM
                                    /\ rng' = [rng EXCEPT !.draws = @ + 1]
    /\ pc' = IF SeedMode = "late" THEN "lateseed" ELSE "loop"
    /\ UNCHANGED <<cfg, i, dof, comlog>>
LateSeed == /\ pc = "lateseed"
            /\ rng' = IF cfg.seed # "none" THEN [origin |-> cfg.seed, draws |-> 0] ELSE rng
            /\ pc' = "loop" /\ UNCHANGED <<cfg, i, vel, dof, comlog>>
\* one loop iteration: integrator (two thermostat draws if damped), then COM removal if i % stride = 0
Iterate ==
    /\ pc = "loop" /\ i < Steps
    /\ rng' = IF Damped(cfg.engine) THEN [rng EXCEPT !.draws = @ + 2] ELSE rng
    /\ comlog' = IF cfg.com # "none" /\ i % Stride = 0 THEN Append(comlog, i) ELSE comlog
    /\ i' = i + 1 /\ UNCHANGED <<cfg, pc, vel, dof>>
Finish == /\ pc = "loop" /\ i = Steps /\ pc' = "done" /\ UNCHANGED <<cfg, i, rng, vel, dof, comlog>>
Next == SetSeed \/ SetDof \/ InitVel \/ LateSeed \/ Iterate \/ Finish
Spec == Init /\ [][Next]_vars

\* ---- properties ---------------------------------------------------------------------------
\* (e) with a seed, every variate of the run comes from that seed's stream at a position that does not
\*     depend on what was consumed before the run
SeedDeterminism ==
    (cfg.seed # "none" /\ pc \in {"loop", "done"}) =>
        /\ rng.origin = cfg.seed
        /\ rng.draws = (IF cfg.velsrc = "drawn" THEN 1 ELSE 0) + (IF Damped(cfg.engine) THEN 2 * i ELSE 0)
\* (g) supplied velocities are the velocities step 0 starts from
UserVelUntouched == (pc \in {"loop", "done"} /\ vel.prov = "user") => ~vel.touched
\* COM removal happens exactly at the documented iterations
ComSchedule == pc = "done" =>
    comlog = (IF cfg.com = "none" THEN << >> ELSE [k \in 1..((Steps + Stride - 1) \div Stride) |-> (k - 1) * Stride])
DofSet == pc \in {"vel", "loop", "done"} => dof = DofOf(cfg.engine)
\* a molecule that can move at all keeps at least one degree of freedom to carry the temperature
DofPositive == pc \in {"vel", "loop", "done"} => \A m \in 1..2 : (<<N1, N2>>[m] > 1) => dof[m] > 0
=============================================================================
