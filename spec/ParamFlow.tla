------------------------------- MODULE ParamFlow -------------------------------
(***************************************************************************)
(* How a caller-supplied Hamiltonian parameter tensor travels through a    *)
(* calculation, and whether reverse-mode differentiation of an output can   *)
(* reach it.                                                                *)
(*   seqm/basics.py: Pack_Parameters.forward (merge with table rows),       *)
(*   Energy._prepare_molecule_inputs / seqm/Molecule.py: Molecule.__init__   *)
(*   (copy of the merged dict), Hamiltonian / hcore / fock (integrals),      *)
(*   scf_loop: SCF0 (scf_backward 0: density path cut), SCF (1: implicit     *)
(*   adjoint), unrolled loop (2).                                            *)
(* A request: method, parameter name, source of the tensor (leaf, non-leaf  *)
(* network output, callable of the geometry), backward mode.                 *)
(* CopyMode "deep" (as shipped: copy.deepcopy of the merged dict: a leaf      *)
(* becomes a new detached leaf, a non-leaf cannot be copied) / "shallow".    *)
(* A parameter enters the Fock step along several paths: directly (the       *)
(* one-centre two-electron terms), and through quantities derived from it    *)
(* (additive terms rho0/rho1/rho2, charge separations -> two-centre          *)
(* integrals w -> core Hamiltonian M).  The implicit backward (mode 1)       *)
(* rebuilds the Fock step from its saved inputs and hands one partial        *)
(* derivative per input back to autograd, which then walks the forward       *)
(* history of those inputs.  HistoryMode "cut": the saved inputs are          *)
(* detached first (fixed code) / "kept" (as shipped): the saved w and M       *)
(* still lead back to the parameter, so those paths are walked inside the     *)
(* backward AND again by autograd.  EachPathOnce: every path contributes     *)
(* exactly once to the gradient the caller sees.                              *)
(***************************************************************************)
EXTENDS Integers, Sequences, FiniteSets, TLC
CONSTANTS CopyMode, HistoryMode

Methods == {"MNDO", "AM1", "PM3"}
Elec == {"U_ss", "U_pp", "zeta_s", "zeta_p", "beta_s", "beta_p", "g_ss", "g_sp", "g_pp", "g_p2", "h_sp"}
CoreOf(m) == CASE m = "MNDO" -> {"alpha"}
               [] m = "AM1" -> {"alpha"} \cup {"Gaussian1_K", "Gaussian2_K", "Gaussian3_K", "Gaussian4_K", "Gaussian1_L", "Gaussian2_L",
                                              "Gaussian3_L", "Gaussian4_L", "Gaussian1_M", "Gaussian2_M", "Gaussian3_M", "Gaussian4_M"}
               [] m = "PM3" -> {"alpha"} \cup {"Gaussian1_K", "Gaussian2_K", "Gaussian1_L", "Gaussian2_L", "Gaussian1_M", "Gaussian2_M"}
ParamsOf(m) == Elec \cup CoreOf(m)
Sources == {"leaf", "nonleaf", "callable"}
Modes == {0, 1, 2}
Outs == {"Etot", "Hf", "e_mo", "gap", "q"}

\* paths of a parameter into the Fock step
OneCentre == {"g_ss", "g_sp", "g_pp", "g_p2", "h_sp"}            \* direct inputs of the Fock step
Derived == {"g_ss", "g_pp", "g_p2", "h_sp", "zeta_s", "zeta_p"}  \* determine rho / dd / qq, hence w and (through w) M
IntoM == {"U_ss", "U_pp", "beta_s", "beta_p", "zeta_s", "zeta_p"}
Paths(p) == (IF p \in OneCentre THEN {"direct"} ELSE {}) \cup (IF p \in Derived THEN {"w", "Mw"} ELSE {}) \cup (IF p \in IntoM THEN {"M"} ELSE {})

VARIABLES req, stage, link, dens, count
vars == <<req, stage, link, dens, count>>
Requests == UNION {[method : {m}, p : ParamsOf(m), src : Sources, mode : Modes] : m \in Methods}
Init == req \in Requests /\ stage = "call" /\ link = "caller" /\ dens = FALSE /\ count = [x \in {"direct", "w", "Mw", "M"} |-> 0]

\* callable evaluated on (species, coordinates): its result is a non-leaf hanging on the caller's leaf
CallLearned == /\ stage = "call" /\ stage' = "merge" /\ UNCHANGED <<req, link, dens, count>>
\* Pack_Parameters.forward: table rows are written next to the caller's entries, the caller's tensor is kept
Merge == /\ stage = "merge" /\ stage' = "copy" /\ UNCHANGED <<req, link, dens, count>>
Copy == /\ stage = "copy"
        /\ link' = IF CopyMode = "shallow" THEN link
                   ELSE IF req.src = "leaf" THEN "detached" ELSE "raised"    \* deepcopy: new leaf / RuntimeError
        /\ stage' = IF link' = "raised" THEN "done" ELSE "integrals"
        /\ UNCHANGED <<req, dens, count>>
Integrals == /\ stage = "integrals" /\ stage' = "scf" /\ UNCHANGED <<req, link, dens, count>>
\* the converged density carries a differentiable dependence on the parameters iff scf_backward >= 1
\* how often the backward pass through the density credits each path to the caller's tensor
Walked(x) == IF req.mode = 0 \/ x \notin Paths(req.p) THEN 0
             ELSE IF req.mode = 1 /\ HistoryMode = "kept" /\ x \in {"w", "Mw"} /\ req.p \in OneCentre THEN 2
             ELSE 1
SCFStage == /\ stage = "scf" /\ dens' = (req.mode >= 1) /\ stage' = "done"
            /\ count' = [x \in DOMAIN count |-> Walked(x)] /\ UNCHANGED <<req, link>>
Next == CallLearned \/ Merge \/ Copy \/ Integrals \/ SCFStage
Spec == Init /\ [][Next]_vars /\ WF_vars(Next)

\* structural dependence of an output on a parameter: explicitly through the integrals / core repulsion,
\* or only through the density
Explicit(out, p) == \/ out \in {"Etot", "Hf"}
                    \/ (out \in {"e_mo", "gap"} /\ p \in Elec)           \* through the Fock matrix
ViaDensity(out, p) == out \in {"e_mo", "gap", "q"} /\ p \in Elec
Reaches(out) == link = "caller" /\ (Explicit(out, req.p) \/ (ViaDensity(out, req.p) /\ dens))
\* what the property demands: energies always; density-dependent outputs with the implicit / unrolled mode
Required(out) == out \in {"Etot", "Hf"} \/ (out \in {"e_mo", "gap", "q"} /\ req.p \in Elec /\ req.mode >= 1)

Accepted == stage = "done" => link # "raised"
ReachesCaller == stage = "done" => \A out \in Outs : Required(out) => Reaches(out)
EachPathOnce == (stage = "done" /\ dens) => \A x \in Paths(req.p) : count[x] = 1
Finishes == <>(stage = "done")
=============================================================================
