------------------------------- MODULE ParamFlow -------------------------------
(***************************************************************************)
(* How a caller-supplied Hamiltonian parameter tensor travels through a    *)
(* calculation, and whether reverse-mode differentiation of an output can   *)
(* reach it.                                                                *)
(*   seqm/basics.py: Pack_Parameters.forward (merge with table rows),       *)
(*   Energy._prepare_molecule_inputs / seqm/Molecule.py: Molecule.__init__   *)
(*   (copy of the merged dict), Hamiltonian / hcore / fock (integrals),      *)
(*   scf_loop: SCF0 (scf_backward 0: density path cut), SCF (1: implicit     *)
(*   adjoint), unrolled loop (2).                                            *)
(* A request: method, parameter name, source of the tensor (leaf, non-leaf  *)
(* network output, callable of the geometry), backward mode.                 *)
(* CopyMode "deep" (as shipped: copy.deepcopy of the merged dict: a leaf      *)
(* becomes a new detached leaf, a non-leaf cannot be copied) / "shallow".    *)
(***************************************************************************)
EXTENDS Integers, Sequences, FiniteSets, TLC
CONSTANTS CopyMode

Methods == {"MNDO", "AM1", "PM3"}
Elec == {"U_ss", "U_pp", "zeta_s", "zeta_p", "beta_s", "beta_p", "g_ss", "g_sp", "g_pp", "g_p2", "h_sp"}
CoreOf(m) == CASE m = "MNDO" -> {"alpha"}
               [] m = "AM1" -> {"alpha"} \cup {"Gaussian1_K", "Gaussian2_K", "Gaussian3_K", "Gaussian4_K", "Gaussian1_L", "Gaussian2_L",
                                              "Gaussian3_L", "Gaussian4_L", "Gaussian1_M", "Gaussian2_M", "Gaussian3_M", "Gaussian4_M"}
               [] m = "PM3" -> {"alpha"} \cup {"Gaussian1_K", "Gaussian2_K", "Gaussian1_L", "Gaussian2_L", "Gaussian1_M", "Gaussian2_M"}
ParamsOf(m) == Elec \cup CoreOf(m)
Sources == {"leaf", "nonleaf", "callable"}
Modes == {0, 1, 2}
Outs == {"Etot", "Hf", "e_mo", "gap", "q"}

VARIABLES req, stage, link, dens
vars == <<req, stage, link, dens>>
Requests == UNION {[method : {m}, p : ParamsOf(m), src : Sources, mode : Modes] : m \in Methods}
Init == req \in Requests /\ stage = "call" /\ link = "caller" /\ dens = FALSE

\* callable evaluated on (species, coordinates): its result is a non-leaf hanging on the caller's leaf
CallLearned == /\ stage = "call" /\ stage' = "merge" /\ UNCHANGED <<req, link, dens>>
\* Pack_Parameters.forward: table rows are written next to the caller's entries, the caller's tensor is kept
Merge == /\ stage = "merge" /\ stage' = "copy" /\ UNCHANGED <<req, link, dens>>
Copy == /\ stage = "copy"
        /\ link' = IF CopyMode = "shallow" THEN link
                   ELSE IF req.src = "leaf" THEN "detached" ELSE "raised"    \* deepcopy: new leaf / RuntimeError
        /\ stage' = IF link' = "raised" THEN "done" ELSE "integrals"
        /\ UNCHANGED <<req, dens>>
Integrals == /\ stage = "integrals" /\ stage' = "scf" /\ UNCHANGED <<req, link, dens>>
\* the converged density carries a differentiable dependence on the parameters iff scf_backward >= 1
SCFStage == /\ stage = "scf" /\ dens' = (req.mode >= 1) /\ stage' = "done" /\ UNCHANGED <<req, link>>
Next == CallLearned \/ Merge \/ Copy \/ Integrals \/ SCFStage
Spec == Init /\ [][Next]_vars /\ WF_vars(Next)

\* structural dependence of an output on a parameter: explicitly through the integrals / core repulsion,
\* or only through the density
Explicit(out, p) == \/ out \in {"Etot", "Hf"}
                    \/ (out \in {"e_mo", "gap"} /\ p \in Elec)           \* through the Fock matrix
ViaDensity(out, p) == out \in {"e_mo", "gap", "q"} /\ p \in Elec
Reaches(out) == link = "caller" /\ (Explicit(out, req.p) \/ (ViaDensity(out, req.p) /\ dens))
\* what the property demands: energies always; density-dependent outputs with the implicit / unrolled mode
Required(out) == out \in {"Etot", "Hf"} \/ (out \in {"e_mo", "gap", "q"} /\ req.p \in Elec /\ req.mode >= 1)

Accepted == stage = "done" => link # "raised"
ReachesCaller == stage = "done" => \A out \in Outs : Required(out) => Reaches(out)
Finishes == <>(stage = "done")
=============================================================================
