-------------------------------- MODULE VVMC --------------------------------
(* Model-checking wrapper for VVExact: the initial-condition sets (cfg files cannot hold tuples). *)
EXTENDS VVExact, Json, IOUtils, FiniteSetsExt, SequencesExt
VelSetDef == {<<0, 0, 0>>, <<1, 0, 0>>, <<0, -1, 2>>}
VelSetBig == {<<0, 0, 0>>, <<1, 0, 0>>, <<0, -1, 2>>, <<-2, 1, 1>>}
PosSet3 == {<< <<0, 0, 0>>, <<3, 0, 0>>, <<1, 2, 0>> >>, << <<0, 0, 0>>, <<2, 1, -1>>, <<-1, 2, 3>> >>}
PosSet2 == {<< <<0, 0, 0>>, <<3, 0, 0>> >>, << <<1, 0, -1>>, <<2, 2, 1>> >>}
NoField == {<<0, 0, 0>>}
Fields2 == {<<0, 0, 0>>, <<1, 0, -1>>}
ASSUME TLCSet(2, {})
Rec == [m |-> m, g |-> g, pat |-> pat, hist |-> hist, engine |-> Engine, c1 |-> C1, amp |-> NoiseAmp, k |-> K, np |-> NP]
Collect == (n = Steps /\ ~flipped) => TLCSet(2, TLCGet(2) \cup {Rec})
Export  == ndJsonSerialize(IOEnv.OUT_FILE, SetToSeq(TLCGet(2)))
=============================================================================
