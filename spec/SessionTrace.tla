---------------------------- MODULE SessionTrace ----------------------------
(* Walks given call histories through Session and prints the hidden state the model expects after every action   *)
(* (used for the fixed histories of the check; the bulk of the histories comes from SessionGen).                  *)
EXTENDS Session, Json, IOUtils, TLCExt, FiniteSetsExt, SequencesExt
Traces == ndJsonDeserialize(IOEnv.TRACE_FILE)
VARIABLES t, l
Reg(n) == 1000 + n

RecNow == [scfcls |-> scfcls, delems |-> [d \in Dicts |-> SetToSeq(delems[d])], pending |-> SetToSeq(pending)]
TInit == t \in 1..Len(Traces) /\ l = 1 /\ Init /\ TLCSet(Reg(t), << >>)
TStep == /\ l <= Len(Traces[t].hist)
         /\ LET ev == Traces[t].hist[l] IN IF ev.op = "fwd" THEN Forward(ev.job) ELSE BackwardOf({ev.jobs[k] : k \in 1..Len(ev.jobs)})
         /\ l' = l + 1 /\ t' = t
TSpec == TInit /\ [][TStep]_<<vars, t, l>>
Track == IF l > 1 /\ Len(TLCGet(Reg(t))) = l - 2 THEN TLCSet(Reg(t), Append(TLCGet(Reg(t)), RecNow)) ELSE TRUE
Post == /\ \A n \in 1..Len(Traces) : PrintT(ToJson([id |-> Traces[n].id, recs |-> TLCGet(Reg(n))]))
        /\ TRUE
=============================================================================
