--------------------------------- MODULE FSSH ---------------------------------
(***************************************************************************)
(* Surface-hopping bookkeeping after each electronic update                 *)
(*   seqm/NonadiabaticDynamics.py: SurfaceHoppingDynamics                    *)
(*   ._after_electronic_update, ._rescale_velocity_along_nac,               *)
(*   the hold-off tick in _do_integrator_step.                              *)
(* Per trajectory: active state, which initial amplitude sits in which slot *)
(* (lab), hold-off counter, previous state, velocity of one atom as an      *)
(* exact rational vnum/den, potential offset, and the hop log.              *)
(* Per step TLC chooses, independently per trajectory, the inputs the real  *)
(* code gets from the electronic structure / random numbers:                *)
(*   swap   a trivial-crossing permutation (identity or a transposition)    *)
(*   hop    the target the random draw selects (0 = none)                   *)
(*   kin    mass m, coupling vector d, and either r >= 1 with               *)
(*          rad = (v.d)^2 - 2 dE' (d.d/m) = r^2  (dE' is then determined)   *)
(*          or frustrated (rad < 0)                                         *)
(* Velocity rescaling along d:  v' = v + alpha d / m,                        *)
(*   alpha = (-(v.d) + sgn(v.d) sqrt(rad)) / (d.d/m)   (smaller root).        *)
(* Detect = TRUE: the permutation goes through _detect_crossings first: a      *)
(* trajectory in hold-off is not examined (no swap applied this step), but   *)
(* if its active state has a crossing partner different from the previous    *)
(* state the hold-off is cleared (probe reset, as in NEXMD).                  *)
(* SignZero: value of sgn(0): 0 as shipped (hop accepted with alpha = 0, no  *)
(* energy exchange), +1 design.                                             *)
(***************************************************************************)
EXTENDS Integers, Sequences, FiniteSets, TLC

CONSTANTS NTraj, NStates, Steps, Decohere, SignZero, SwapScope, Detect, Rich   \* Rich: full input set for trajectory 1 (use with Steps = 1)   \* SwapScope "own" (as coded) | "all" (mutant: swap applied to every trajectory)

Traj == 1..NTraj
St == 1..NStates
Energies == <<2, 5, 9, 14>>       \* state energies in tenths of eV (only differences matter)
VARIABLES tr, log, n, hist
vars == <<tr, log, n, hist>>

Dot(a, b) == a[1] * b[1] + a[2] * b[2] + a[3] * b[3]
Sgn(x) == IF x > 0 THEN 1 ELSE IF x < 0 THEN -1 ELSE SignZero
Transp(p, q) == [s \in St |-> IF s = p THEN q ELSE IF s = q THEN p ELSE s]
Ident == [s \in St |-> s]
Swaps == {Ident} \cup {Transp(p, q) : p \in St, q \in St}
VSet == {<<1, 0, 0>>, <<0, 2, -1>>, <<1, 1, 1>>}
DSet == {<<1, 0, 0>>, <<0, 1, 1>>, <<0, 1, 0>>, <<2, -1, 0>>}
Kin == [m : {1, 2}, d : DSet, r : {0, 1, 2, 3}]      \* r = 0 encodes a frustrated hop (rad < 0)
NoKin == [m |-> 1, d |-> <<1, 0, 0>>, r |-> 0]
Small == {[swap |-> Ident, hop |-> 0, kin |-> NoKin], [swap |-> Transp(1, 2), hop |-> 0, kin |-> NoKin],
          [swap |-> Ident, hop |-> 2, kin |-> [m |-> 1, d |-> <<0, 1, 0>>, r |-> 1]],
          [swap |-> Ident, hop |-> 1, kin |-> [m |-> 2, d |-> <<1, 0, 0>>, r |-> 2]],
          [swap |-> Ident, hop |-> 2, kin |-> [m |-> 2, d |-> <<1, 0, 0>>, r |-> 0]],
          [swap |-> Transp(2, 3), hop |-> 3, kin |-> [m |-> 1, d |-> <<0, 1, 1>>, r |-> 3]]}
\* full input set for trajectory 1 when Rich (the kinematics only matter when a hop is selected)
Inputs(t) == IF t = 1 /\ Rich
               THEN {[swap |-> w, hop |-> 0, kin |-> NoKin] : w \in Swaps} \cup [swap : Swaps, hop : St, kin : Kin]
               ELSE Small

Init ==
    /\ tr \in [Traj -> {[active |-> a, lab |-> Ident, hold |-> 0, prev |-> 0, vnum |-> v, den |-> 1, pot |-> Energies[a], hops |-> 0] : a \in 1..2, v \in VSet}]
    /\ log = << >> /\ n = 0 /\ hist = << >>

\* ---- one trajectory through _after_electronic_update --------------------------------------
\* returns [tr |-> new record, ev |-> sequence of log events]
One(t, old, in, swapIn) ==
    LET held   == old.hold > 0
        partner == swapIn[old.active]
        reset  == Detect /\ held /\ old.prev # 0 /\ partner # old.active /\ partner # old.prev
        hold0  == IF reset THEN 0 ELSE old.hold
        perm   == IF Detect /\ held THEN Ident ELSE swapIn      \* permutation applied to THIS trajectory
        \* new_coeff[p(i)] = old_coeff[i]
        lab1   == [s \in St |-> old.lab[CHOOSE i \in St : perm[i] = s]]
        a1     == perm[old.active]
        swapped == a1 # old.active
        ev1    == IF swapped THEN <<[traj |-> t, from |-> old.active, to |-> a1, ok |-> TRUE, why |-> "trivial"]>> ELSE << >>
        skip   == hold0 > 0 \/ swapped
        hold1  == IF swapped THEN 2 ELSE hold0
        prev1  == IF swapped THEN old.active ELSE old.prev
        tgt    == IF skip \/ in.hop = 0 \/ in.hop = a1 \/ old.den # 1 \/ old.hops > 0 THEN 0 ELSE in.hop
        d      == in.kin.d
        m      == in.kin.m
        D      == Dot(d, d)
        b      == Dot(old.vnum, d)
        r      == in.kin.r
        accept == tgt # 0 /\ r > 0
        c      == -b + Sgn(b) * r                          \* alpha (d.d/m)
        vnum2  == IF accept THEN [k \in 1..3 |-> D * old.vnum[k] + c * d[k]] ELSE old.vnum
        den2   == IF accept THEN D ELSE old.den
        a2     == IF accept THEN tgt ELSE a1
        lab2   == IF tgt # 0 /\ Decohere THEN [s \in St |-> IF s = a2 THEN 100 ELSE 0] ELSE lab1   \* collapse onto the (new or kept) active state
        ev2    == IF tgt = 0 THEN << >>
                  ELSE <<[traj |-> t, from |-> a1, to |-> tgt, ok |-> accept, why |-> IF accept THEN "hop" ELSE "frustrated"]>>
    IN [tr |-> [active |-> a2, lab |-> lab2, hold |-> IF accept THEN 2 ELSE hold1, prev |-> prev1, vnum |-> vnum2, den |-> den2,
                pot |-> old.pot - Energies[old.active] + Energies[a2], hops |-> old.hops + (IF accept THEN 1 ELSE 0)],
        ev |-> ev1 \o ev2, tgt |-> tgt, accept |-> accept, b |-> b, D |-> D, c |-> c, r |-> r, m |-> m, reset |-> reset, perm |-> perm]

RECURSIVE Cat(_, _)
Cat(f, k) == IF k = 0 THEN << >> ELSE Cat(f, k - 1) \o f[k]

Step ==
    /\ n < Steps
    /\ \E in \in [Traj -> UNION {Inputs(t) : t \in Traj}] :
         /\ \A t \in Traj : in[t] \in Inputs(t)
         /\ LET ticked == [t \in Traj |-> [tr[t] EXCEPT !.hold = IF @ > 0 THEN @ - 1 ELSE 0]]        \* hold-off tick
                anySwap == IF \E t \in Traj : in[t].swap # Ident THEN in[CHOOSE t \in Traj : in[t].swap # Ident].swap ELSE Ident
                res == [t \in Traj |-> One(t, ticked[t], in[t], IF SwapScope = "own" THEN in[t].swap ELSE anySwap)]
            IN /\ tr' = [t \in Traj |-> res[t].tr]
               /\ log' = log \o Cat([t \in Traj |-> res[t].ev], NTraj)
               /\ hist' = Append(hist, [pre |-> tr, in |-> in, out |-> tr', info |-> [t \in Traj |-> [tgt |-> res[t].tgt, accept |-> res[t].accept, b |-> res[t].b, D |-> res[t].D, c |-> res[t].c, r |-> res[t].r, m |-> res[t].m, reset |-> res[t].reset, perm |-> res[t].perm]]])
    /\ n' = n + 1

Next == Step
Spec == Init /\ [][Next]_vars

\* ---- properties -------------------------------------------------------------------------------
Last == hist[Len(hist)]
NewStep == hist' # hist
L1 == hist'[Len(hist')]
\* (e) a trivial crossing is a permutation of amplitudes and active index: without a decoherence collapse the
\*     set of amplitude labels is kept and the active LABEL follows the active index
SwapIsPermutation ==
    [][NewStep => \A t \in Traj :
          (L1.info[t].tgt = 0 /\ {tr[t].lab[s] : s \in St} = St) =>
              /\ {tr'[t].lab[s] : s \in St} = St
              /\ tr'[t].lab[tr'[t].active] = tr[t].lab[tr[t].active]]_vars
\* (d) a frustrated hop leaves active state (after the relabelling of that step) and velocities untouched
FrustratedNoChange ==
    [][NewStep => \A t \in Traj :
          (L1.info[t].tgt # 0 /\ ~L1.info[t].accept) =>
              /\ tr'[t].vnum = tr[t].vnum /\ tr'[t].den = tr[t].den
              /\ tr'[t].active = L1.info[t].perm[tr[t].active]]_vars
\* (c) accepted hop: the velocity changes along d only (by construction of vnum') and the kinetic energy changes
\*     by exactly -dE:   |V'|^2 - D^2 |v|^2 = -(b^2 - r^2) D   (integers; dE' = (b^2 - r^2) m / (2 D))
EnergyExact ==
    [][NewStep => \A t \in Traj :
          L1.info[t].accept =>
              LET i == L1.info[t] IN
              Dot(tr'[t].vnum, tr'[t].vnum) - i.D * i.D * Dot(tr[t].vnum, tr[t].vnum) = -(i.b * i.b - i.r * i.r) * i.D]_vars
Abs(x) == IF x < 0 THEN -x ELSE x
\* ... by the smaller of the two adjustments that conserve energy
SmallerRoot ==
    [][NewStep => \A t \in Traj :
          L1.info[t].accept => LET i == L1.info[t] IN Abs(i.c) <= Abs(-i.b - Sgn(i.b) * i.r)]_vars
\* hold-off: no stochastic hop in the two steps after an accepted hop / trivial crossing of the active state
HoldoffBlocksHop ==
    [][NewStep => \A t \in Traj : (tr[t].hold = 2 /\ ~L1.info[t].reset) => L1.info[t].tgt = 0]_vars
\* (f) nothing done to one trajectory affects another: a trajectory whose own inputs are "nothing happens"
\*     keeps everything but its hold-off counter
Isolation ==
    [][NewStep => \A t \in Traj :
          (L1.in[t].swap = Ident /\ L1.in[t].hop = 0) =>
             /\ tr'[t].active = tr[t].active /\ tr'[t].lab = tr[t].lab /\ tr'[t].vnum = tr[t].vnum /\ tr'[t].den = tr[t].den
             /\ tr'[t].pot = tr[t].pot /\ tr'[t].prev = tr[t].prev]_vars
PotentialTracksActive == \A t \in Traj : tr[t].pot = Energies[tr[t].active]
=============================================================================
