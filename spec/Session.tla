------------------------------ MODULE Session ------------------------------
(***************************************************************************)
(* Process-wide hidden state of PYSEQM and the call histories that touch   *)
(* it.  Read off the code:                                                  *)
(*  - class attributes of scf_loop.SCF (shared with SCF0): themethod,       *)
(*    scf_backward_eps, converger, sp2 - written by SCF.__init__ /          *)
(*    SCF.forward (scf_backward in {0,1}); SCF.backward runs later, when    *)
(*    the caller back-propagates, and (as shipped) reads themethod and      *)
(*    scf_backward_eps from the CLASS;                                      *)
(*  - the caller's settings dict: Molecule.__init__ stores `elements` on    *)
(*    first use and (as shipped) never extends it;                          *)
(*  - torch globals (default dtype set by _load_checkpoint_base).           *)
(* A job declares (method, eps exponent, elements, backward mode, dict).    *)
(* `eff` records what a job actually READ; the property is eff = declared.  *)
(*                                                                         *)
(* Deviation constants:                                                     *)
(*   BackwardReads  "ctx"  = values captured at forward time (design)       *)
(*                  "class" = class attributes at backward time (shipped)   *)
(*   ElementsMode   "extend" = dict's element list grows when needed        *)
(*                  "sticky" = first molecule's elements kept (shipped)     *)
(***************************************************************************)
EXTENDS Integers, Sequences, FiniteSets, TLC

CONSTANTS MaxLen, BackwardReads, ElementsMode

\* ---- the job pool (names are the keys of drivers/session_driver.py:JOBS) -------------------
Jobs == {"tight", "loose", "nh3A", "cisC", "uhfD", "sp2E", "radA", "h2oA", "mdF", "dispG", "dispH", "farI", "uhfJ", "uhfsK", "mdL1", "mdL2"}
Dict(j)   == CASE j \in {"tight", "nh3A", "radA", "h2oA"} -> "A" [] j = "loose" -> "B" [] j = "cisC" -> "C"
               [] j = "uhfD" -> "D" [] j = "sp2E" -> "E" [] j = "mdF" -> "F" [] j = "dispG" -> "G" [] j = "dispH" -> "H" [] j = "farI" -> "I" [] j = "uhfJ" -> "J" [] j = "uhfsK" -> "K" [] j \in {"mdL1", "mdL2"} -> "L"
Elems(j)  == CASE j \in {"tight", "loose", "sp2E", "h2oA", "mdF", "dispG", "farI", "uhfsK", "mdL1", "mdL2"} -> {1, 8} [] j \in {"nh3A", "radA"} -> {1, 7}
               [] j \in {"cisC", "dispH"} -> {1, 6, 8} [] j \in {"uhfD", "uhfJ"} -> {1, 6}
Method(j) == IF j = "loose" THEN "PM3" ELSE "AM1"
EpsExp(j) == CASE j = "tight" -> 10 [] j = "loose" -> 3 [] j = "cisC" -> 7 [] OTHER -> 8
Backward(j) == CASE j \in {"tight", "loose"} -> 1 [] j = "sp2E" -> 2 [] OTHER -> 0
Fails(j)  == j \in {"radA", "uhfJ"}   \* radA: odd-electron RHF, raises inside Molecule.__init__, after `elements` was stored
FailsLate(j) == j = "uhfJ"            \* UHF + Pulay: refused inside SCF.forward, after the SCF class attributes were set
Dicts == {"A", "B", "C", "D", "E", "F", "G", "H", "I", "J", "K", "L"}

VARIABLES hist, scfcls, delems, pending, eff, beff
vars == <<hist, scfcls, delems, pending, eff, beff>>

Unset == [method |-> "-", eps |-> 0]
Own(j) == [method |-> Method(j), eps |-> EpsExp(j)]

Init ==
    /\ hist = << >> /\ scfcls = Unset
    /\ delems = [d \in Dicts |-> {}]
    /\ pending = {} /\ eff = [j \in {} |-> 0] /\ beff = [j \in {} |-> 0]

NewElems(j) ==
    LET d == Dict(j) IN
    IF delems[d] = {} THEN Elems(j)
    ELSE IF ElementsMode = "extend" THEN delems[d] \cup Elems(j) ELSE delems[d]

\* a forward calculation (Molecule(...) + driver call)
Forward(j) ==
    /\ Len(hist) < MaxLen
    /\ hist' = Append(hist, <<"fwd", j>>)
    /\ delems' = [delems EXCEPT ![Dict(j)] = NewElems(j)]
    /\ IF Fails(j)
         THEN /\ scfcls' = IF FailsLate(j) /\ Elems(j) \subseteq NewElems(j) THEN Own(j) ELSE scfcls
              /\ UNCHANGED <<pending, eff, beff>>
         ELSE /\ eff' = [k \in DOMAIN eff \cup {j} |-> IF k = j THEN [elems_ok |-> Elems(j) \subseteq NewElems(j)] ELSE eff[k]]
              /\ scfcls' = IF Backward(j) \in {0, 1} /\ Elems(j) \subseteq NewElems(j) THEN Own(j) ELSE scfcls
              /\ pending' = IF Backward(j) = 1 /\ Elems(j) \subseteq NewElems(j) THEN pending \cup {j} ELSE pending
              /\ UNCHANGED beff

\* loss.backward() over the outputs of a set of earlier forwards (summed loss)
BackwardOf(S) ==
    /\ S # {} /\ S \subseteq pending /\ Len(hist) < MaxLen
    /\ hist' = Append(hist, <<"bwd", S>>)
    /\ beff' = [k \in DOMAIN beff \cup S |->
                  IF k \in S THEN (IF BackwardReads = "class" THEN scfcls ELSE Own(k)) ELSE beff[k]]
    /\ pending' = pending \ S
    /\ UNCHANGED <<scfcls, delems, eff>>

Next == (\E j \in Jobs : Forward(j)) \/ (\E S \in SUBSET pending : BackwardOf(S))
Spec == Init /\ [][Next]_vars

\* ---- properties ----------------------------------------------------------------------------
\* (a)(b) what a job reads is what it declared, whatever came before
InputsOnlyForward  == \A j \in DOMAIN eff : eff[j].elems_ok
InputsOnlyBackward == \A j \in DOMAIN beff : beff[j] = Own(j)
\* (e) a settings dict always covers the molecule it is used with
DictStable == \A d \in Dicts : \A n \in 1..Len(hist) :
                 (hist[n][1] = "fwd" /\ Dict(hist[n][2]) = d) => Elems(hist[n][2]) \subseteq delems[d]
=============================================================================
