----------------------------- MODULE MDRunTrace -----------------------------
(***************************************************************************)
(* Code -> spec: validates traces recorded from the real run loop          *)
(* (hook events md.* plus the driver's crash / observe / final events)     *)
(* against MDRun.  All traces of a batch are read from one ndjson file;    *)
(* the trace is picked in Init, so one rejected trace never hides another. *)
(* For every trace the furthest line reached, the model state there and    *)
(* any violated property are kept in TLC registers and printed at the end. *)
(***************************************************************************)
EXTENDS MDRun, Json, IOUtils, TLCExt

Traces == ndJsonDeserialize(IOEnv.TRACE_FILE)

VARIABLES t, l
tvars == <<vars, t, l>>

Ev  == Traces[t].ev
E   == Ev[l]
IsEv(n) == l <= Len(Ev) /\ E.name = n
Consume == l' = l + 1 /\ t' = t
Silent  == UNCHANGED <<t, l>>
CurIs(c) == \A s \in H5Streams : cur'[s] = c[s]
Reg(k)  == 1000 + k

TInit ==
    /\ t \in 1..Len(Traces)
    /\ l = 1
    /\ IF Traces[t].resumed_from >= 0 THEN DeadAfterCheckpoint(Traces[t].cfg, Traces[t].resumed_from) ELSE InitWith(Traces[t].cfg)
    /\ TLCSet(Reg(t), [l |-> 0, pc |-> "-", i |-> -1, bad |-> "-"])

\* ---- logged events ------------------------------------------------------
TrInitFresh == IsEv("init") /\ E.offset = 0 /\ Fresh /\ CurIs(E.cur) /\ Consume
TrInitResume == IsEv("init") /\ E.offset > 0 /\ Resume /\ i' = E.offset /\ CurIs(E.cur) /\ Consume
TrNa     == IsEv("na") /\ E.i = i /\ Due(Cad("na"), i + 1) /\ AppendNa /\ CurIs(E.cur) /\ Consume
TrStep   == IsEv("step") /\ E.i = i /\ StepDone /\ Consume
TrDataMid == IsEv("data.mid") /\ E.step = i + 1 /\ DataMid /\ Consume
TrData   == IsEv("data") /\ E.i = i /\ DataFull /\ CurIs(E.cur) /\ Consume
TrVec    == IsEv("vec") /\ E.i = i /\ AppendVec /\ CurIs(E.cur) /\ Consume
TrXyz    == IsEv("xyz") /\ E.i = i /\ Due(cfg.xyz, i + 1) /\ AppendXyz /\ Consume
TrFlush  == IsEv("flush") /\ E.i = i /\ FlushXyz /\ Consume
TrTmp    == IsEv("ckpt_tmp") /\ E.step_done = i + 1 /\ TmpComplete /\ Consume
TrReplace == IsEv("ckpt_replace") /\ E.step_done = i + 1 /\ Replace /\ Consume
TrIterEnd == IsEv("iter_end") /\ E.i = i /\ NextIter /\ (\A s \in H5Streams : cur[s] = E.cur[s]) /\ Consume
TrClose  == IsEv("close") /\ Finish /\ Consume
TrCrash  == IsEv("crash") /\ ((E.kind = "soft" /\ SoftCrash) \/ (E.kind = "hard" /\ HardCrash)) /\ Consume

RowsMatch(s, seq) == /\ Len(seq) = Cap(s)
                     /\ \A r \in 0..(Cap(s) - 1) : dsk[s][r] = seq[r + 1]
\* what the driver saw on disk after a crash or at the end
TrObserve ==
    /\ IsEv("observe") /\ pc \in {"dead", "done"}
    /\ IF E.h5ok
         THEN \A s \in H5Streams : RowsMatch(s, E.dsk[s])
         ELSE ckpt.done < 0      \* an unreadable file is tolerated only while nothing can be resumed
    /\ xdsk = E.xyz /\ torn = E.torn
    /\ ckpt.done = E.ckpt
    /\ E.tmpfiles = litter + (IF tmp = "none" THEN 0 ELSE 1)
    /\ UNCHANGED vars /\ Consume
TrFinal ==
    /\ IsEv("final") /\ pc = "done"
    /\ (E.checkscr => scr = E.scr) /\ cks = E.cks
    /\ UNCHANGED vars /\ Consume

\* ---- steps of the model that leave no event ------------------------------
SilIntegrate == Integrate /\ Silent
SilNa    == ~Due(Cad("na"), i + 1) /\ AppendNa /\ Silent
SilScreen == Screen /\ Silent
SilData  == DataSkip /\ Silent
SilVec   == (VecW \cup TdmOwnW) = {} /\ AppendVec /\ Silent
SilXyz   == ~Due(cfg.xyz, i + 1) /\ AppendXyz /\ Silent
SilFlushH == FlushH5 /\ Silent
SilTmpP  == TmpPartial /\ Silent

TNext == \/ TrInitFresh \/ TrInitResume \/ TrNa \/ TrStep \/ TrDataMid \/ TrData \/ TrVec \/ TrXyz
         \/ TrFlush \/ TrTmp \/ TrReplace \/ TrIterEnd \/ TrClose \/ TrCrash \/ TrObserve \/ TrFinal
         \/ SilIntegrate \/ SilNa \/ SilScreen \/ SilData \/ SilVec \/ SilXyz \/ SilFlushH \/ SilTmpP

TSpec == TInit /\ [][TNext]_tvars

\* ---- bookkeeping (always TRUE; evaluated on every reachable state) --------
FirstBad ==
    IF ~CkptNeverPartial THEN "CkptNeverPartial"
    ELSE IF ~CkptCovered THEN "CkptCovered"
    ELSE IF ~H5Equal THEN "H5Equal"
    ELSE IF ~XyzExactlyOnce THEN "XyzExactlyOnce"
    ELSE IF ~ExactAtEnd THEN "ExactAtEnd"
    ELSE IF ~ScreenExact THEN "ScreenExact"
    ELSE IF ~CkptCadence THEN "CkptCadence"
    ELSE IF ~CursorAtCap THEN "CursorAtCap"
    ELSE "-"
Track ==
    LET old == TLCGet(Reg(t))
        b   == FirstBad
    IN  /\ (l - 1 > old.l \/ (b # "-" /\ old.bad = "-")) =>
              TLCSet(Reg(t), [l   |-> IF l - 1 > old.l THEN l - 1 ELSE old.l,
                              pc  |-> IF l - 1 > old.l THEN pc ELSE old.pc,
                              i   |-> IF l - 1 > old.l THEN i ELSE old.i,
                              bad |-> IF old.bad # "-" THEN old.bad ELSE b])
        /\ TRUE

Post ==
    /\ \A k \in 1..Len(Traces) :
          PrintT(ToJson([id |-> Traces[k].id, n |-> Len(Traces[k].ev), r |-> TLCGet(Reg(k))]))
    /\ TRUE
=============================================================================
