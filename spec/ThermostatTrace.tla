--------------------------- MODULE ThermostatTrace ---------------------------
(* Evaluates the Thermostat identities on the per-atom step maps measured on the real engines. *)
EXTENDS Thermostat, Json, IOUtils, TLCExt
Recs == ndJsonDeserialize(IOEnv.TRACE_FILE)
VARIABLE t
Reg(n) == 1000 + n
Why(r) == IF ~TwoDraws(r) THEN "TwoDraws" ELSE IF ~Friction(r) THEN "Friction" ELSE IF ~ZeroT(r) THEN "ZeroT"
          ELSE IF ~NVELimit(r) THEN "NVELimit" ELSE IF ~FDT(r) THEN "FDT" ELSE IF ~Isotropic(r) THEN "Isotropic"
          ELSE IF ~PaddingAtRest(r) THEN "PaddingAtRest" ELSE IF ~StepNoise(r) THEN "StepNoise" ELSE "-"
TInit == t \in 1..Len(Recs) /\ cfg = None /\ coeff = None /\ cache = {} /\ pc = "idle" /\ runs = 0 /\ TLCSet(Reg(t), Why(Recs[t]))
TNext == UNCHANGED <<vars, t>>
TSpec == TInit /\ [][TNext]_<<vars, t>>
Post == /\ \A n \in 1..Len(Recs) : PrintT(ToJson([id |-> Recs[n].id, why |-> TLCGet(Reg(n))]))
        /\ TRUE
=============================================================================
