-------------------------------- MODULE SCF --------------------------------
(***************************************************************************)
(* Control structure of the SCF density solvers                            *)
(*   seqm/seqm_functions/scf_loop.py: scf_forward0/1/2 main loops,          *)
(*   get_error (the convergence test shared by all three), the epilogue of *)
(*   scf_loop (flags returned to the caller), and the SP2 inner loop        *)
(*   (seqm/seqm_functions/SP2.py).                                          *)
(*                                                                         *)
(* Numerical outcomes are nondeterministic booleans; data flow and control *)
(* are exact.  The stored error arrays (err, dm_err, dm_element_err,       *)
(* diis_error) keep the last value written for every molecule; get_error   *)
(* rewrites the energy (and DIIS) entries of ACTIVE molecules only, the     *)
(* density entries only of active molecules whose energy/DIIS test passed,  *)
(* and recomputes the mask from the stored arrays of ALL molecules.         *)
(***************************************************************************)
EXTENDS Integers, FiniteSets, TLC

CONSTANTS
    Mol,        \* set of molecules in the batch
    MaxIter,    \* stand-in for MAX_ITER + 1 (iterations the outer loop may run)
    UseDIIS,    \* TRUE for the Pulay solver (diis_error participates)
    UseSP2,     \* TRUE: every density build runs the SP2 inner loop
    SP2Cap,     \* iteration cap of the SP2 loop; Unlimited = loop as shipped before the fix
    MaskMode,   \* "all": mask recomputed from the stored arrays of all molecules (as coded)
                \* "drop_el": element criterion left out of the mask (mutant)
    WriteMode   \* "active": only rows of active molecules are rewritten (as coded); "all" (mutant)
Unlimited == -1

VARIABLES pc, k, nc, eBad, diisBad, dmBad, elBad, pv, sk, snc, ret
vars == <<pc, k, nc, eBad, diisBad, dmBad, elBad, pv, sk, snc, ret>>

Init ==
    /\ pc = "build" /\ k = 0 /\ nc = Mol
    /\ eBad = [m \in Mol |-> TRUE] /\ dmBad = [m \in Mol |-> TRUE] /\ elBad = [m \in Mol |-> TRUE]
    /\ diisBad = [m \in Mol |-> UseDIIS]
    /\ pv = [m \in Mol |-> 0]
    /\ sk = 0 /\ snc = {} /\ ret = {}

\* loop head: leave when nobody is active or the cap is reached
LoopExit == /\ pc = "build" /\ nc = {} /\ pc' = "epilogue"
            /\ UNCHANGED <<k, nc, eBad, diisBad, dmBad, elBad, pv, sk, snc, ret>>
CapExit  == /\ pc = "build" /\ nc # {} /\ k = MaxIter /\ pc' = "epilogue"
            /\ UNCHANGED <<k, nc, eBad, diisBad, dmBad, elBad, pv, sk, snc, ret>>

\* make_Pnew for the active rows: diagonalisation, or the SP2 inner loop
BuildDiag == /\ pc = "build" /\ nc # {} /\ k < MaxIter /\ ~UseSP2 /\ pc' = "mix"
             /\ UNCHANGED <<k, nc, eBad, diisBad, dmBad, elBad, pv, sk, snc, ret>>
SP2Enter  == /\ pc = "build" /\ nc # {} /\ k < MaxIter /\ UseSP2
             /\ pc' = "sp2" /\ sk' = 0 /\ snc' = nc
             /\ UNCHANGED <<k, nc, eBad, diisBad, dmBad, elBad, pv, ret>>
\* one purification sweep; which molecules pass the two-in-a-row error test is numerics
SP2Iter   == /\ pc = "sp2" /\ snc # {} /\ (SP2Cap = Unlimited \/ sk < SP2Cap)
             \* (uncapped: the counter only alternates, so that a sweep that converges nothing is still a step)
             /\ sk' = (IF SP2Cap = Unlimited THEN (sk + 1) % 2 ELSE sk + 1) /\ snc' \in SUBSET snc
             /\ UNCHANGED <<pc, k, nc, eBad, diisBad, dmBad, elBad, pv, ret>>
SP2Leave  == /\ pc = "sp2" /\ (snc = {} \/ (SP2Cap # Unlimited /\ sk >= SP2Cap))
             /\ pc' = "mix"
             /\ UNCHANGED <<k, nc, eBad, diisBad, dmBad, elBad, pv, sk, snc, ret>>

\* P[notconverged] = mix(...): rows of active molecules are rewritten
Mix == /\ pc = "mix"
       /\ pv' = [m \in Mol |-> IF m \in nc \/ WriteMode = "all" THEN pv[m] + 1 ELSE pv[m]]
       /\ pc' = "err"
       /\ UNCHANGED <<k, nc, eBad, diisBad, dmBad, elBad, sk, snc, ret>>

Mask(e, d, dm, el) == {m \in Mol : e[m] \/ d[m] \/ dm[m] \/ (MaskMode = "all" /\ el[m])}
\* Fock build, energy, get_error
GetError ==
    /\ pc = "err"
    /\ \E e \in [nc -> BOOLEAN], d \in [nc -> (IF UseDIIS THEN BOOLEAN ELSE {FALSE})] :
         LET e2 == [m \in Mol |-> IF m \in nc THEN e[m] ELSE eBad[m]]
             d2 == [m \in Mol |-> IF m \in nc THEN d[m] ELSE diisBad[m]]
             ev == {m \in nc : ~(e2[m] \/ d2[m])}    \* dm_mask = active & ~bad
         IN \E dm \in [ev -> BOOLEAN], el \in [ev -> BOOLEAN] :
              /\ eBad' = e2 /\ diisBad' = d2
              /\ dmBad' = [m \in Mol |-> IF m \in ev THEN dm[m] ELSE dmBad[m]]
              /\ elBad' = [m \in Mol |-> IF m \in ev THEN el[m] ELSE elBad[m]]
              /\ nc' = Mask(eBad', diisBad', dmBad', elBad')
    /\ k' = k + 1 /\ pc' = "build"
    /\ UNCHANGED <<pv, sk, snc, ret>>

\* scf_loop epilogue: the mask is what the caller gets
Epilogue == /\ pc = "epilogue" /\ ret' = nc /\ pc' = "exit"
            /\ UNCHANGED <<k, nc, eBad, diisBad, dmBad, elBad, pv, sk, snc>>

Next == LoopExit \/ CapExit \/ BuildDiag \/ SP2Enter \/ SP2Iter \/ SP2Leave \/ Mix \/ GetError \/ Epilogue
Fair == WF_vars(LoopExit) /\ WF_vars(CapExit) /\ WF_vars(BuildDiag) /\ WF_vars(SP2Enter)
        /\ WF_vars(SP2Iter) /\ WF_vars(SP2Leave) /\ WF_vars(Mix) /\ WF_vars(GetError) /\ WF_vars(Epilogue)
Spec == Init /\ [][Next]_vars /\ Fair

\* ---- properties ---------------------------------------------------------------------------
AllOK(m) == ~eBad[m] /\ ~diisBad[m] /\ ~dmBad[m] /\ ~elBad[m]
TypeOK == k \in 0..MaxIter /\ nc \subseteq Mol /\ snc \subseteq Mol
\* a molecule is inactive exactly when every stored criterion passed at its last evaluation
MaskTruthful   == k > 0 => \A m \in Mol : (m \notin nc) <=> AllOK(m)
\* (b) the flags handed to the caller are that mask: never "converged" with a failed criterion
FlagTruthful   == pc = "exit" => \A m \in Mol : (m \notin ret) <=> AllOK(m)
NeverSilent    == pc = "exit" /\ k = MaxIter => nc \subseteq ret
\* converged molecules are never re-activated and their density is frozen
NoReactivation == [][nc' \subseteq nc]_vars
Frozen         == [][\A m \in Mol : m \notin nc => pv'[m] = pv[m]]_vars
Bounded        == k <= MaxIter
\* (c) every call returns
Terminates     == <>(pc = "exit")
=============================================================================
