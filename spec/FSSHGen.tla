------------------------------- MODULE FSSHGen -------------------------------
EXTENDS FSSH, Json, IOUtils, FiniteSetsExt, SequencesExt, TLCExt
CONSTANT ExportMod
ASSUME TLCSet(2, {})
InJ(in) == [swap |-> [s \in St |-> in.swap[s]], hop |-> in.hop, kin |-> in.kin]
InfoJ(i) == [tgt |-> i.tgt, accept |-> i.accept, b |-> i.b, D |-> i.D, c |-> i.c, r |-> i.r, m |-> i.m, reset |-> i.reset]
StepJ(h) == [pre |-> h.pre, in |-> [t \in Traj |-> InJ(h.in[t])], out |-> h.out, info |-> [t \in Traj |-> InfoJ(h.info[t])]]
\* export a deterministic pseudo-random subset (1 in Mod behaviours) to keep the file small
Collect == (n = Steps /\ (TLCGet("distinct") % ExportMod = 0)) => TLCSet(2, TLCGet(2) \cup {[h |-> hist, log |-> log]})
Export == ndJsonSerialize(IOEnv.OUT_FILE, SetToSeq({[steps |-> [k \in 1..Len(x.h) |-> StepJ(x.h[k])], log |-> x.log] : x \in TLCGet(2)}))
=============================================================================
