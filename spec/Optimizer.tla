------------------------------ MODULE Optimizer ------------------------------
(***************************************************************************)
(* Loop control of the built-in steepest-descent optimiser                  *)
(*   seqm/MolecularDynamics.py: Geometry_Optimization_SD.onestep / run.      *)
(* Exact instance: every molecule is one coordinate in a quadratic well     *)
(* E = k x^2 / 2, F = -k x, step factor alpha with alpha k = 1/2, so         *)
(* x_n = x_0 / 2^n.  Positions are integers times 2^-Cap.                    *)
(* As coded: onestep evaluates, then moves ALL molecules (also after the     *)
(* deciding evaluation); the stop test is the batch-global max |F|; the     *)
(* report after the loop says "not converged" iff the loop index reached     *)
(* the cap (so first convergence exactly at the cap is reported as not       *)
(* converged - the statement leaves that coincidence open: Ambiguous).       *)
(* StopMode: "le" stop when fmax <= tol (as coded); "lt" (mutant: < tol).    *)
(* MoveSign: "plus" x + alpha F (as coded); "minus" (mutant).                 *)
(***************************************************************************)
EXTENDS Integers, Sequences, FiniteSets, TLC

CONSTANTS Mols, X0Set, TolSet, CapSet, StopMode, MoveSign

VARIABLES x0, tol8, cap, it, x, evx, e, eprev, pc, report, ret, path
vars == <<x0, tol8, cap, it, x, evx, e, eprev, pc, report, ret, path>>

MaxCap == 6
S == 64                      \* 2^MaxCap: scale of positions
K == 2                       \* force constant (alpha = 1/4)
Abs(a) == IF a < 0 THEN -a ELSE a
MaxOf(f) == CHOOSE v \in {Abs(f[m]) : m \in Mols} : \A w \in {Abs(f[m]) : m \in Mols} : w <= v
\* forces at scale S: F = -K x ; fmax compared with tol (tol8 = tol in eighths): K*|x|/S <= tol8/8
FMaxS(xx) == K * MaxOf(xx)                    \* scaled by S
Ok(xx) == IF StopMode = "le" THEN 8 * FMaxS(xx) <= tol8 * S ELSE 8 * FMaxS(xx) < tol8 * S
\* energy at scale S*S: E = K x^2 / 2
En(xx) == [m \in Mols |-> (K * xx[m] * xx[m]) \div 2]

Init ==
    /\ x0 \in [Mols -> X0Set] /\ tol8 \in TolSet /\ cap \in CapSet
    /\ it = 0 /\ x = [m \in Mols |-> x0[m] * S] /\ evx = x /\ e = [m \in Mols |-> 0] /\ eprev = [m \in Mols |-> 0]
    /\ pc = "loop" /\ report = "-" /\ ret = [fmax |-> -1, de |-> 0] /\ path = << >>

\* onestep: evaluate at the current geometry, then move every molecule
Evaluate ==
    /\ pc = "loop" /\ it < cap
    /\ evx' = x /\ e' = En(x)
    /\ eprev' = IF it = 0 THEN [m \in Mols |-> 0] ELSE eprev
    /\ x' = [m \in Mols |-> x[m] + (IF MoveSign = "plus" THEN 1 ELSE -1) * ((-K * x[m]) \div 4)]        \* x + alpha F, alpha = 1/4
    /\ it' = it + 1 /\ pc' = "test"
    /\ path' = Append(path, [x |-> x, fmax |-> FMaxS(x)])
    /\ UNCHANGED <<x0, tol8, cap, report, ret>>
\* if force_err > tol: Lold = Lnew; continue  else break
Test ==
    /\ pc = "test"
    /\ IF Ok(evx) THEN pc' = "report" /\ UNCHANGED eprev
                  ELSE /\ eprev' = e /\ pc' = (IF it < cap THEN "loop" ELSE "report")
    /\ UNCHANGED <<x0, tol8, cap, it, x, evx, e, report, ret, path>>
\* after the loop: i == max_evl - 1 ?
Report ==
    /\ pc = "report"
    /\ report' = IF it = cap THEN "not converged" ELSE "converged"
    /\ ret' = [fmax |-> FMaxS(evx), de |-> e[CHOOSE m \in Mols : TRUE] - eprev[CHOOSE m \in Mols : TRUE]]
    /\ pc' = "done"
    /\ UNCHANGED <<x0, tol8, cap, it, x, evx, e, eprev, path>>
Next == Evaluate \/ Test \/ Report
Spec == Init /\ [][Next]_vars /\ WF_vars(Next)

\* ---- properties ---------------------------------------------------------------------------
FirstOk == IF \E n \in 0..(MaxCap + 8) : 8 * K * MaxOf([m \in Mols |-> (x0[m] * S) \div (IF n = 0 THEN 1 ELSE IF n = 1 THEN 2 ELSE IF n = 2 THEN 4 ELSE IF n = 3 THEN 8 ELSE IF n = 4 THEN 16 ELSE IF n = 5 THEN 32 ELSE 64)]) <= tol8 * S /\ n < 7
           THEN 1 ELSE 0
Ambiguous == pc = "done" /\ it = cap /\ Ok(evx)          \* first convergence exactly at the cap
\* (b) ends exactly when max|F| first drops to the tolerance, or at the cap
StopsAtFirstOk == pc = "done" => /\ (it < cap => Ok(evx))
                                 /\ \A n \in 1..(Len(path) - 1) : ~(8 * path[n].fmax <= tol8 * S)
EvalBound == it <= cap
\* (c) cap reached without convergence is reported as not converged
CapReported == (pc = "done" /\ ~Ok(evx)) => report = "not converged"
ConvergedReported == (pc = "done" /\ it < cap) => report = "converged"
\* (d) returned residual belongs to the last geometry evaluated
ReturnFromLastEvaluation == pc = "done" => ret.fmax = FMaxS(evx) /\ evx = path[Len(path)].x
\* (a) every iteration lowers every molecule's energy
Descent == \A n \in 1..(Len(path) - 1) : \A m \in Mols : Abs(path[n + 1].x[m]) <= Abs(path[n].x[m])
\* (f) the path of a molecule does not depend on its batch mates:  x_m(n) = x0_m / 2^(n-1)
PrefixIndependent == \A n \in 1..Len(path) : \A m \in Mols : path[n].x[m] * (IF n = 1 THEN 1 ELSE IF n = 2 THEN 2 ELSE IF n = 3 THEN 4 ELSE IF n = 4 THEN 8 ELSE IF n = 5 THEN 16 ELSE 32) = x0[m] * S
Terminates == <>(pc = "done")
=============================================================================
