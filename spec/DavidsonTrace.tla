------------------------------ MODULE DavidsonTrace ------------------------------
(* Validates recorded Davidson solves (hooks dav.begin / dav.iter / dav.exit) against Davidson.
   Trace: id, nmol, nroots, maxsub, maxit, nstart, ev: iter [it, vstart, vend, done, nnc, collapsed, frozen] (sequences per
   molecule; frozen[m] = stored energies and amplitudes of m unchanged since the previous event), exit [done]. *)
EXTENDS Davidson, Json, IOUtils, TLCExt
Traces == ndJsonDeserialize(IOEnv.TRACE_FILE)
VARIABLES t, l, stagn
tvars == <<vars, t, l, stagn>>
Ev == Traces[t].ev
E == Ev[l]
TM == 1..Traces[t].nmol
Reg(n) == 1000 + n
TInit == /\ t \in 1..Len(Traces) /\ l = 1 /\ it = 0 /\ vstart = [m \in TM |-> 0] /\ vend = [m \in TM |-> Traces[t].nstart]
         /\ done = [m \in TM |-> FALSE] /\ conv = [m \in TM |-> FALSE] /\ pc = "loop" /\ stagn = FALSE
         /\ TLCSet(Reg(t), [l |-> 0, it |-> 0, stagn |-> FALSE])
TrIter ==
    /\ l <= Len(Ev) /\ E.name = "iter" /\ pc = "loop" /\ it <= Traces[t].maxit /\ E.it = it + 1
    /\ LET act == {m \in TM : ~done[m]}
           fin == {m \in act : E.nnc[m] = 0}
       IN /\ \A m \in TM : done[m] => (E.done[m] /\ E.frozen[m] /\ E.vstart[m] = vstart[m] /\ E.vend[m] = vend[m])   \* finished: frozen
          /\ \A m \in fin : E.done[m]
          /\ \A m \in act \ fin :
                /\ E.vend[m] <= Traces[t].maxsub
                /\ IF E.collapsed[m] THEN E.vstart[m] = Traces[t].nroots /\ E.vend[m] <= Traces[t].nroots + E.nnc[m]
                                     ELSE E.vstart[m] = vend[m] /\ E.vend[m] <= vend[m] + E.nnc[m]
                /\ E.vend[m] >= E.vstart[m]
                /\ E.done[m] <=> (E.vend[m] = E.vstart[m])                        \* only stagnation finishes an unconverged molecule
          /\ vstart' = [m \in TM |-> E.vstart[m]] /\ vend' = [m \in TM |-> E.vend[m]]
          /\ done' = [m \in TM |-> E.done[m]]
          /\ conv' = [m \in TM |-> conv[m] \/ m \in fin]
          /\ stagn' = (stagn \/ \E m \in act \ fin : E.done[m])
    /\ it' = it + 1 /\ pc' = "loop" /\ l' = l + 1 /\ t' = t
TrExit ==
    /\ l <= Len(Ev) /\ E.name = "exit" /\ pc = "loop"
    /\ \A m \in TM : done[m] /\ E.done[m] /\ E.frozen[m]
    /\ pc' = "return" /\ l' = l + 1 /\ t' = t /\ UNCHANGED <<it, vstart, vend, done, conv, stagn>>
TNext == TrIter \/ TrExit
TSpec == TInit /\ [][TNext]_tvars
Track == LET old == TLCGet(Reg(t)) IN (l - 1 > old.l => TLCSet(Reg(t), [l |-> l - 1, it |-> it, stagn |-> stagn])) /\ TRUE
Post == /\ \A n \in 1..Len(Traces) : PrintT(ToJson([id |-> Traces[n].id, n |-> Len(Traces[n].ev), r |-> TLCGet(Reg(n))]))
        /\ TRUE
=============================================================================
