-------------------------------- MODULE Publish --------------------------------
(***************************************************************************)
(* What a calculation publishes on the molecule and how the published      *)
(* scalars hang together.                                                   *)
(*   seqm/ElectronicStructure.py: Electronic_Structure.forward (SCF and     *)
(*   XL-BOMD branches, charges), seqm/basics.py: Energy.forward epilogue    *)
(*   (total_energy, heat_formation, gap), seqm/seqm_functions/energy.py.     *)
(* Model: every public path publishes a fixed set of attributes; after a    *)
(* call each of them must stem from THAT call (generation stamp).           *)
(* The identities are linear and are evaluated by TLC on fixed-point        *)
(* integers (1e-6 eV, 1e-6 e) logged from the real attributes:              *)
(*   Etot = Eelec + Enuc + Eexc(active)                                     *)
(*   Hf   = Etot - Eiso + SUM_atoms Heat(Z)      (Heat: table below)        *)
(*   gap  = e_LUMO - e_HOMO, orbital energies ascending                     *)
(*   SUM q = charge,  q_a = core_a - SUM_{mu on a} P_mu,mu                   *)
(*   dipole(R + t) - dipole(R) = charge * t   (zero for neutral molecules;  *)
(*   in the code's dipole unit: e*Angstrom divided by its bohr radius)       *)
(***************************************************************************)
EXTENDS Integers, Sequences, FiniteSets, TLC

Paths == {"scf", "scf_exc", "uhf", "xl"}
Attrs == {"Etot", "Eelec", "Enuc", "Hf", "Eiso", "e_mo", "e_gap", "q", "dm", "force", "cis_energies"}
Published(p) == CASE p = "scf" -> Attrs \ {"cis_energies"}
                  [] p = "scf_exc" -> Attrs
                  [] p = "uhf" -> Attrs \ {"cis_energies"}
                  [] p = "xl" -> Attrs \ {"cis_energies"}

\* experimental heats of formation of the atoms used by MOPAC (kcal/mol: H 52.102, C 170.89, N 113.0,
\* O 59.559, F 18.89), divided by 23.061 kcal/mol per eV, in 1e-6 eV
Heat(z) == CASE z = 1 -> 2259312 [] z = 6 -> 7410346 [] z = 7 -> 4900048 [] z = 8 -> 2582672 [] z = 9 -> 819132

VARIABLES gen, calls
vars == <<gen, calls>>
Init == gen = [a \in Attrs |-> 0] /\ calls = 0
Call(p) == /\ calls < 3 /\ calls' = calls + 1
           /\ gen' = [a \in Attrs |-> IF a \in Published(p) THEN calls' ELSE gen[a]]
Next == \E p \in Paths : Call(p)
Spec == Init /\ [][Next]_vars
\* after a call through path p nothing in Published(p) is older than that call
Current == [][\A p \in Paths : Call(p) => \A a \in Published(p) : gen'[a] = calls']_vars

Abs(x) == IF x < 0 THEN -x ELSE x
RECURSIVE Sum(_, _)
Sum(s, n) == IF n = 0 THEN 0 ELSE s[n] + Sum(s, n - 1)
\* identities on one logged record r (integers)
EnergySum(r)  == Abs(r.Etot - (r.Eelec + r.Enuc + r.Eexc)) <= 3
HeatOK(r)     == Abs(r.Hf - r.Etot + r.Eiso - Sum([n \in 1..Len(r.Z) |-> Heat(r.Z[n])], Len(r.Z))) <= 3 + Len(r.Z)
\* Orbital energies.  A fresh molecule object gets them ascending.  On a molecule object that is evaluated
\* again the closed-shell code keeps every orbital at the column it had in the previous call (orbital tracking:
\* Energy._crossing_match_molecular_orbitals permutes occupied and virtual columns separately), so there the
\* list is ascending only up to a permutation inside the occupied and inside the virtual block, HOMO is the
\* highest occupied and LUMO the lowest virtual entry; the gap must be the one of the ascending list either way.
RECURSIVE MaxIn(_, _, _), MinIn(_, _, _)
MaxIn(s, a, b) == IF a = b THEN s[a] ELSE LET m == MaxIn(s, a + 1, b) IN IF s[a] > m THEN s[a] ELSE m
MinIn(s, a, b) == IF a = b THEN s[a] ELSE LET m == MinIn(s, a + 1, b) IN IF s[a] < m THEN s[a] ELSE m
Homo(r, s) == MaxIn(r.emo[s], 1, r.nocc[s])
Lumo(r, s) == MinIn(r.emo[s], r.nocc[s] + 1, Len(r.emo[s]))
Asc(e) == \A n \in 1..(Len(e) - 1) : e[n] <= e[n + 1]
GapOK(r)      == \A s \in 1..Len(r.gap) : Abs(r.gap[s] - (Lumo(r, s) - Homo(r, s))) <= 2
Aufbau(r)     == \A s \in 1..Len(r.emo) : Homo(r, s) <= Lumo(r, s)
Ascending(r)  == \A s \in 1..Len(r.emo) : Asc(r.emo0[s]) /\ (r.tracked \/ Asc(r.emo[s]))
\* every published (orbital k, energy k) pair: max |F c_k - e_k c_k| + | |c_k|^2 - 1 |, F = the Fock matrix the solver returned
EigTol == 20
EigOK(r)      == \A s \in 1..Len(r.eigres) : \A k \in 1..Len(r.eigres[s]) : r.eigres[s][k] <= EigTol
\* second call at the geometry turned by 90 degrees about z: the dipole turns with it
RotTol == 30
RotOK(r)      == r.rot => /\ Abs(r.dip[1] + r.dip0[2]) <= RotTol /\ Abs(r.dip[2] - r.dip0[1]) <= RotTol /\ Abs(r.dip[3] - r.dip0[3]) <= RotTol
ChargeSum(r)  == Abs(Sum(r.q, Len(r.q)) - r.charge * 1000000) <= Len(r.q)
ChargeDef(r)  == \A a \in 1..Len(r.q) : Abs(r.q[a] - (r.core[a] * 1000000 - r.dp[a])) <= 4
\* translation by t = <<1, 2, -3>> Angstrom between two calls; DipUnit = 1 e*Angstrom in the dipole unit, times 1e6
DipUnit == 1889851
Shift == <<1, 2, -3>>
TransOK(r) == \A d \in 1..3 : Abs(r.dshift[d] - r.charge * Shift[d] * DipUnit) <= 5
\* the dipole is the one implied by the published charges, coordinates and density: point charges q_a R_a plus the
\* one-centre s-p hybridisation term -2 dd_a P(s, p_d) (products formed by the driver, summed here)
DipoleFormula(r) == r.dipf => \A d \in 1..3 : Abs(Sum(r.dq[d], Len(r.dq[d])) + r.dh[d] - r.dip[d]) <= 3 + Len(r.dq[d])
\* when the forces of all states are requested, the entry of the active state is the published force
AllForcesOK(r) == r.allf <= 5
ElectronCount(r) == Abs(Sum(r.dp, Len(r.dp)) - r.nel * 1000000) <= 4 * Len(r.q)
=============================================================================
