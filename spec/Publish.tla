-------------------------------- MODULE Publish --------------------------------
(***************************************************************************)
(* What a calculation publishes on the molecule and how the published      *)
(* scalars hang together.                                                   *)
(*   seqm/ElectronicStructure.py: Electronic_Structure.forward (SCF and     *)
(*   XL-BOMD branches, charges), seqm/basics.py: Energy.forward epilogue    *)
(*   (total_energy, heat_formation, gap), seqm/seqm_functions/energy.py.     *)
(* Model: every public path publishes a fixed set of attributes; after a    *)
(* call each of them must stem from THAT call (generation stamp).           *)
(* The identities are linear and are evaluated by TLC on fixed-point        *)
(* integers (1e-6 eV, 1e-6 e) logged from the real attributes:              *)
(*   Etot = Eelec + Enuc + Eexc(active)                                     *)
(*   Hf   = Etot - Eiso + SUM_atoms Heat(Z)      (Heat: table below)        *)
(*   gap  = e_LUMO - e_HOMO, orbital energies ascending                     *)
(*   SUM q = charge,  q_a = core_a - SUM_{mu on a} P_mu,mu                   *)
(***************************************************************************)
EXTENDS Integers, Sequences, FiniteSets, TLC

Paths == {"scf", "scf_exc", "uhf", "xl"}
Attrs == {"Etot", "Eelec", "Enuc", "Hf", "Eiso", "e_mo", "e_gap", "q", "dm", "force", "cis_energies"}
Published(p) == CASE p = "scf" -> Attrs \ {"cis_energies"}
                  [] p = "scf_exc" -> Attrs
                  [] p = "uhf" -> Attrs \ {"cis_energies"}
                  [] p = "xl" -> Attrs \ {"cis_energies"}

\* experimental heats of formation of the atoms used by MOPAC (kcal/mol: H 52.102, C 170.89, N 113.0,
\* O 59.559, F 18.89), divided by 23.061 kcal/mol per eV, in 1e-6 eV
Heat(z) == CASE z = 1 -> 2259312 [] z = 6 -> 7410346 [] z = 7 -> 4900048 [] z = 8 -> 2582672 [] z = 9 -> 819132

VARIABLES gen, calls
vars == <<gen, calls>>
Init == gen = [a \in Attrs |-> 0] /\ calls = 0
Call(p) == /\ calls < 3 /\ calls' = calls + 1
           /\ gen' = [a \in Attrs |-> IF a \in Published(p) THEN calls' ELSE gen[a]]
Next == \E p \in Paths : Call(p)
Spec == Init /\ [][Next]_vars
\* after a call through path p nothing in Published(p) is older than that call
Current == [][\A p \in Paths : Call(p) => \A a \in Published(p) : gen'[a] = calls']_vars

Abs(x) == IF x < 0 THEN -x ELSE x
RECURSIVE Sum(_, _)
Sum(s, n) == IF n = 0 THEN 0 ELSE s[n] + Sum(s, n - 1)
\* identities on one logged record r (integers)
EnergySum(r)  == Abs(r.Etot - (r.Eelec + r.Enuc + r.Eexc)) <= 3
HeatOK(r)     == Abs(r.Hf - r.Etot + r.Eiso - Sum([n \in 1..Len(r.Z) |-> Heat(r.Z[n])], Len(r.Z))) <= 3 + Len(r.Z)
GapOK(r)      == \A s \in 1..Len(r.gap) : Abs(r.gap[s] - (r.lumo[s] - r.homo[s])) <= 2
Ascending(r)  == \A s \in 1..Len(r.emo) : \A n \in 1..(Len(r.emo[s]) - 1) : r.emo[s][n] <= r.emo[s][n + 1]
ChargeSum(r)  == Abs(Sum(r.q, Len(r.q)) - r.charge * 1000000) <= Len(r.q)
ChargeDef(r)  == \A a \in 1..Len(r.q) : Abs(r.q[a] - (r.core[a] * 1000000 - r.dp[a])) <= 4
ElectronCount(r) == Abs(Sum(r.dp, Len(r.dp)) - r.nel * 1000000) <= 4 * Len(r.q)
=============================================================================
