------------------------------ MODULE MDRunMC ------------------------------
(* Model-checking wrapper: the configuration lattice for MDRun. *)
EXTENDS MDRun, Json, IOUtils, FiniteSetsExt, SequencesExt
CONSTANTS StepsSet, DataSet, CoordSet, VelSet, ForceSet, NaSet, TdmSet, XyzSet, CkptSet, PrintSet

Lattice ==
  { [steps |-> n,
     cad   |-> [s \in H5Streams |->
                 CASE s = "data" -> d [] s = "coordinates" -> c [] s = "velocities" -> v
                   [] s = "forces" -> f [] s = "na" -> a [] s = "tdm" -> t],
     xyz |-> x, ckpt |-> k, print |-> p] :
     n \in StepsSet, d \in DataSet, c \in CoordSet, v \in VelSet, f \in ForceSet,
     a \in NaSet, t \in TdmSet, x \in XyzSet, k \in CkptSet, p \in PrintSet }

\* TDM rows only exist inside /data (the dataset is created only when /data is)
LatticeOK == { g \in Lattice : g.cad["tdm"] > 0 => g.cad["data"] > 0 }

\* ---- export (spec -> code): the lattice itself and the crash schedules TLC explored ----
ASSUME TLCSet(2, {})
Terminal == pc = "done" \/ (pc = "dead" /\ ckpt.done < 0)
Collect  == (Terminal /\ hist # << >>) => TLCSet(2, TLCGet(2) \cup {[cfg |-> cfg, sched |-> hist, term |-> pc]})
ExportSchedules == ndJsonSerialize(IOEnv.OUT_FILE, SetToSeq(TLCGet(2)))
ExportLattice   == ndJsonSerialize(IOEnv.OUT_FILE, SetToSeq(LatticeOK))
ExportInit == InitWith(CHOOSE c \in LatticeOK : TRUE)
ExportNext == UNCHANGED vars
=============================================================================
