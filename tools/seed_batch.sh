#!/bin/sh
# usage: seed_batch.sh Cxx   -> confirms /tmp/wt_Cxx/out_mutants/m{1,2,3} (whole pytest suite), then removes the worktree
P=$1
for k in 1 2 3; do
  if [ -f /tmp/wt_$P/out_mutants/m$k.diff ]; then
    python3 /verif/tools/seed_confirm.py $P-m$k $P /tmp/wt_$P/out_mutants/m$k.diff /tmp/wt_$P/out_mutants/m${k}_demo.py /tmp/wt_$P/out_mutants/m${k}_notes.txt -n 6
  fi
done
git -C /repo worktree remove --force /tmp/wt_$P
