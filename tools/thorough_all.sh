#!/bin/sh
# Runs every registered thorough check once (evidence/out redirected to a scratch dir); one line per check.
OUTD=$(mktemp -d /tmp/thorough_XXXX)
PROPS="${*:-$(python3 -c "import json;print(' '.join(c['property_id'] for c in json.load(open('/verif/MANIFEST.json'))['checks']))")}"
for p in $PROPS; do
  s=$(date +%s)
  r=$(VERIF_OUT=$OUTD/out VERIF_EVIDENCE_DIR=$OUTD/ev VERIF_SCRATCH=$OUTD/scratch /verif/check $p --tier thorough 2>&1 | grep -E "^\[C|VIOLATION|MACHINERY|KNOWN" | tail -4 | tr '\n' ' ')
  echo "$p $(( $(date +%s) - s ))s $r"
done
echo "evidence in $OUTD/ev"
