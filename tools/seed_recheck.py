#!/usr/bin/env python3
"""Re-run the quick (or $SEED_TIER) check of a seeded change against its patch and update meta.json.
usage: seed_recheck.py <seed id> [<seed id> ...]"""
import json
import os
import subprocess
import sys
import tempfile


def main():
    for sid in sys.argv[1:]:
        dest = os.path.join("/verif/seeded", sid)
        meta = json.load(open(os.path.join(dest, "meta.json")))
        prop = meta["property"]
        wt = tempfile.mkdtemp(prefix="seed_", dir="/tmp")
        os.rmdir(wt)
        subprocess.run(["git", "-C", "/repo", "worktree", "add", "--detach", "-q", wt, "HEAD"], check=True)
        try:
            a = subprocess.run(["git", "-C", wt, "apply", os.path.join(dest, "patch.diff")])
            if a.returncode != 0:
                # the tree moved under the patch (later fix commits): retry with reduced context and store the rebased patch
                a = subprocess.run(["git", "-C", wt, "apply", "-C1", os.path.join(dest, "patch.diff")])
                if a.returncode == 0:
                    d = subprocess.run(["git", "-C", wt, "diff"], capture_output=True, text=True).stdout
                    open(os.path.join(dest, "patch.diff"), "w").write(d)
                    meta["rebased_onto"] = subprocess.run(["git", "-C", "/repo", "rev-parse", "--short", "HEAD"], capture_output=True, text=True).stdout.strip()
            meta["patch_applies"] = a.returncode == 0
            envd = dict(os.environ, PYTHONPATH=wt, OMP_NUM_THREADS="2", PYTHONWARNINGS="ignore")
            envd.pop("LANL_PYSEQM_VERIF", None)
            dd = subprocess.run(["/venv/bin/python", os.path.join(dest, "demo.py")], cwd=wt, env=envd, stdout=subprocess.PIPE, stderr=subprocess.STDOUT, text=True)
            meta["demo_patched_rc"] = dd.returncode
            if os.environ.get("SEED_PYTEST") == "1":
                envp = dict(os.environ, PYTHONPATH=wt, OMP_NUM_THREADS="2", PYTHONWARNINGS="ignore")
                envp.pop("LANL_PYSEQM_VERIF", None)
                pp = subprocess.run(["/venv/bin/python", "-m", "pytest", "-q", "-p", "no:cacheprovider", "--timeout=900", "-n", "6"], cwd=wt, env=envp, stdout=subprocess.PIPE, stderr=subprocess.STDOUT, text=True)
                meta["pytest_rc"] = pp.returncode
                meta["pytest_tail"] = pp.stdout.strip().splitlines()[-1] if pp.stdout.strip() else ""
                meta["ran"] = [r for r in meta.get("ran", []) if not r.startswith("pytest")] + ["pytest (whole suite, -n 6, guard off) with patch -> rc %d: %s" % (pp.returncode, meta["pytest_tail"])]
            tier = os.environ.get("SEED_TIER", "quick")
            envc = dict(os.environ, VERIF_REPO=wt, VERIF_SCRATCH=os.path.join(wt, ".vs"), VERIF_OUT=os.path.join(wt, ".vo"), VERIF_EVIDENCE_DIR=os.path.join(wt, ".ve"))
            p = subprocess.run(["/verif/check", prop, "--tier", tier], env=envc, stdout=subprocess.PIPE, stderr=subprocess.STDOUT, text=True)
            kinds = {}
            rd = os.path.join(wt, ".vo", "replays", prop)
            if os.path.isdir(rd):
                for f in os.listdir(rd):
                    kinds[f.rsplit("_", 1)[0]] = kinds.get(f.rsplit("_", 1)[0], 0) + 1
            sfx = "" if os.environ.get("VERIF_SEED", "0") == "0" else "_seed" + os.environ["VERIF_SEED"]
            key = ("check" if tier == "quick" else "check_" + tier) + sfx
            meta[key + "_rc"] = p.returncode
            meta[key + "_tail"] = "\n".join(p.stdout.strip().splitlines()[-3:])
            meta[("violation_kinds" if tier == "quick" else "violation_kinds_" + tier) + sfx] = kinds
            meta[("detected" if tier == "quick" else "detected_" + tier) + sfx] = p.returncode == 1 and a.returncode == 0
            meta["repo_head"] = subprocess.run(["git", "-C", "/repo", "rev-parse", "--short", "HEAD"], capture_output=True, text=True).stdout.strip()
            meta["ran"] = [r for r in meta.get("ran", []) if not r.startswith(f"./check {prop} --tier {tier}")] + [f"./check {prop} --tier {tier} against the patched tree -> rc {p.returncode}"]
        finally:
            subprocess.run(["git", "-C", "/repo", "worktree", "remove", "--force", wt], check=False)
        json.dump(meta, open(os.path.join(dest, "meta.json"), "w"), indent=1)
        print(sid, "applies", meta.get("patch_applies"), "demo", meta.get("demo_patched_rc"), "check", p.returncode, kinds, flush=True)


main()
