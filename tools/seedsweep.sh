#!/bin/sh
# Runs every registered quick check under several seeds (evidence/out redirected); prints one line per run.
# usage: tools/seedsweep.sh "1 2 3" [props...]
SEEDS="${1:-1 2 3}"; shift
PROPS="${*:-$(python3 -c "import json;print(' '.join(c['property_id'] for c in json.load(open('/verif/MANIFEST.json'))['checks']))")}"
OUTD=$(mktemp -d /tmp/sweep_XXXX)
for s in $SEEDS; do for p in $PROPS; do
  r=$(VERIF_SEED=$s VERIF_OUT=$OUTD/out VERIF_EVIDENCE_DIR=$OUTD/ev VERIF_SCRATCH=$OUTD/scratch /verif/check $p --tier quick 2>&1 | tail -1)
  echo "seed=$s $r"
done; done
rm -rf $OUTD
