#!/usr/bin/env python3
"""Apply a textual mutation to a scratch worktree of /repo and run a check against it.
usage: mutcheck.py <prop> <tier> <relative file> <old> <new> [<file> <old> <new> ...]
       mutcheck.py <prop> <tier> --patch <diff file>
Prints the last lines of the check's output and its exit code; removes the worktree."""
import os
import subprocess
import sys
import tempfile


def main():
    prop, tier = sys.argv[1], sys.argv[2]
    rest = sys.argv[3:]
    wt = tempfile.mkdtemp(prefix="mut_", dir="/tmp")
    os.rmdir(wt)
    subprocess.run(["git", "-C", "/repo", "worktree", "add", "--detach", "-q", wt, "HEAD"], check=True)
    try:
        if rest[0] == "--patch":
            subprocess.run(["git", "-C", wt, "apply", rest[1]], check=True)
        else:
            for k in range(0, len(rest), 3):
                f, old, new = rest[k : k + 3]
                p = os.path.join(wt, f)
                s = open(p).read()
                if s.count(old) < 1:
                    print("MUTATION ANCHOR NOT FOUND:", old)
                    return 3
                open(p, "w").write(s.replace(old, new, 1))
        env = dict(os.environ, VERIF_REPO=wt, VERIF_SCRATCH=os.path.join(wt, ".verif_scratch"),
                   VERIF_OUT=os.path.join(wt, ".verif_out"), VERIF_EVIDENCE_DIR=os.path.join(wt, ".verif_evidence"))
        r = subprocess.run(["/verif/check", prop, "--tier", tier], env=env, stdout=subprocess.PIPE, stderr=subprocess.STDOUT, text=True)
        lines = r.stdout.strip().splitlines()
        print("\n".join(lines[-int(os.environ.get("MUT_TAIL", "6")):]))
        print("exit", r.returncode)
        return 0
    finally:
        subprocess.run(["git", "-C", "/repo", "worktree", "remove", "--force", wt], check=False)


sys.exit(main())
