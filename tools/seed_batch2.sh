#!/bin/sh
# usage: seed_batch2.sh Cxx   -> confirms /tmp/wt2_Cxx/out_mutants/m{1,2,3} as Cxx-n{1,2,3} (second-round seeds), then removes the worktree
P=$1
for k in 1 2 3; do
  if [ -f /tmp/wt${R:-2}_$P/out_mutants/m$k.diff ]; then
    python3 /verif/tools/seed_confirm.py $P-${S:-n}$k $P /tmp/wt${R:-2}_$P/out_mutants/m$k.diff /tmp/wt${R:-2}_$P/out_mutants/m${k}_demo.py /tmp/wt${R:-2}_$P/out_mutants/m${k}_notes.txt -n 6
  fi
done
git -C /repo worktree remove --force /tmp/wt${R:-2}_$P
