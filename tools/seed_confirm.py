#!/usr/bin/env python3
"""Confirm a seeded change and store it under /verif/seeded/<id>/.
usage: seed_confirm.py <seed id> <property> <patch.diff> <demo.py> <notes.txt> <pytest args...>
Steps (scratch worktree under /tmp, removed afterwards):
  1. demo on the clean tree            -> must exit 0
  2. apply patch, import seqm, demo    -> must exit != 0
  3. pytest <args> with the patch      -> must pass
  4. ./check <property> --tier quick against the patched tree -> records detected / missed
"""
import json
import os
import shutil
import subprocess
import sys
import tempfile
import time


def sh(cmd, cwd=None, env=None, timeout=7200):
    p = subprocess.run(cmd, cwd=cwd, env=env, stdout=subprocess.PIPE, stderr=subprocess.STDOUT, text=True, timeout=timeout)
    return p.returncode, p.stdout


def main():
    sid, prop, patch, demo, notes = sys.argv[1:6]
    pyt = sys.argv[6:]
    dest = os.path.join("/verif/seeded", sid)
    os.makedirs(dest, exist_ok=True)
    shutil.copy(patch, os.path.join(dest, "patch.diff"))
    shutil.copy(demo, os.path.join(dest, "demo.py"))
    wt = tempfile.mkdtemp(prefix="seed_", dir="/tmp")
    os.rmdir(wt)
    subprocess.run(["git", "-C", "/repo", "worktree", "add", "--detach", "-q", wt, "HEAD"], check=True)
    meta = {"id": sid, "property": prop, "needs": open(notes).read().strip()[:1500], "repo_head": subprocess.run(["git", "-C", "/repo", "rev-parse", "--short", "HEAD"], capture_output=True, text=True).stdout.strip(), "ran": []}
    try:
        env = dict(os.environ, PYTHONPATH=wt, OMP_NUM_THREADS="2", PYTHONWARNINGS="ignore")
        env.pop("LANL_PYSEQM_VERIF", None)
        rc0, out0 = sh(["/venv/bin/python", os.path.join(dest, "demo.py")], cwd=wt, env=env)
        meta["demo_clean_rc"] = rc0
        meta["ran"].append("demo.py on clean tree -> rc %d" % rc0)
        rca, outa = sh(["git", "-C", wt, "apply", os.path.join(dest, "patch.diff")])
        meta["patch_applies"] = rca == 0
        rc1, out1 = sh(["/venv/bin/python", os.path.join(dest, "demo.py")], cwd=wt, env=env)
        meta["demo_patched_rc"] = rc1
        meta["demo_patched_tail"] = out1[-400:]
        meta["ran"].append("demo.py with patch -> rc %d" % rc1)
        if pyt and os.environ.get("SEED_SKIP_PYTEST") != "1":
            t0 = time.time()
            rcp, outp = sh(["/venv/bin/python", "-m", "pytest", "-q", "-p", "no:cacheprovider", "--timeout=900"] + pyt, cwd=wt, env=env)
            meta["pytest_rc"] = rcp
            meta["pytest_tail"] = outp.strip().splitlines()[-1] if outp.strip() else ""
            meta["ran"].append("pytest %s with patch -> rc %d (%.0fs)" % (" ".join(pyt), rcp, time.time() - t0))
        envc = dict(os.environ, VERIF_REPO=wt, VERIF_SCRATCH=os.path.join(wt, ".vs"), VERIF_OUT=os.path.join(wt, ".vo"), VERIF_EVIDENCE_DIR=os.path.join(wt, ".ve"))
        rcc, outc = sh(["/verif/check", prop, "--tier", os.environ.get("SEED_TIER", "quick")], env=envc)
        meta["check_rc"] = rcc
        meta["check_tail"] = "\n".join(outc.strip().splitlines()[-3:])
        kinds = {}
        rd = os.path.join(wt, ".vo", "replays", prop)
        if os.path.isdir(rd):
            for f in os.listdir(rd):
                kinds[f.rsplit("_", 1)[0]] = kinds.get(f.rsplit("_", 1)[0], 0) + 1
        meta["violation_kinds"] = kinds
        meta["detected"] = rcc == 1
        meta["ran"].append("./check %s --tier %s against the patched tree -> rc %d" % (prop, os.environ.get("SEED_TIER", "quick"), rcc))
    finally:
        subprocess.run(["git", "-C", "/repo", "worktree", "remove", "--force", wt], check=False)
    with open(os.path.join(dest, "meta.json"), "w") as f:
        json.dump(meta, f, indent=1)
    print(json.dumps({k: meta.get(k) for k in ("id", "demo_clean_rc", "demo_patched_rc", "pytest_rc", "check_rc", "detected", "violation_kinds")}))


main()
