#!/usr/bin/env python3
"""Regenerates /verif/MANIFEST.json from the table below (single source of truth)."""
import json
import os

HERE = os.path.dirname(os.path.dirname(os.path.abspath(__file__)))

HOOK_COMMITS = ["6e1d5dd", "092527b", "70942f2", "7e1ebbc"]

CHECKS = {
    "C03": dict(
        text="TLC checks the SCF control model (get_error data flow, active set, frozen rows, iteration caps, SP2 inner loop, epilogue) exhaustively: mask and returned flags truthful, no re-activation, converged rows frozen, bounded, liveness Terminates; spec mutants must be refuted. A lattice of real single-point jobs (molecules/padded batches/ions/UHF x fixed/adaptive/Pulay x SP2 tolerances x thresholds x start densities x caps) runs with SCF hooks on; every solver span is validated against the model by TLC (SCFTrace), and the self-consistency predicates (symmetry, trace, charge sum, idempotency, commutation, re-diagonalisation, energy functional) are evaluated at API return for every molecule reported converged; an SP2 loop exceeding its iteration budget counts as a call that does not return.",
        note="Predicate bounds are C*max(scf_eps, effective SP2 tolerance)+floor with solver-aware constants calibrated on the unchanged tree (ratios recorded in the evidence); the Fock matrix in the predicates is the code's own, built from the returned density. KSA SCF (undocumented converger 3) is not covered.",
        tech="explicit TLA+ model (SCF) checked by TLC incl. liveness; hook traces of the real solvers validated by TLC (SCFTrace); projection predicates at API return",
        ref="DESIGN.md §4 C03",
    ),
    "C09": dict(
        text="Partial: decides (b) fixed point at every buffer phase and (c) the executed recurrence is the published one for k=3..9 incl. after restart. TLC checks XLHistory (the paper's table as integers: sum rule, fixed point; slot->age alignment, overwrite-oldest, window, newest-after-resume) exhaustively for k=3..9 with crash/resume at every step; two alignment mutants must be refuted. The real XL_BOMD/KSA_XL_BOMD one_step, _propagate_P and run_from_checkpoint are observed (one-hot decoding of the applied weights, slot written, slot resumed) for every k, 3m+2 steps and a restart at buffer phases; the traces are validated against XLHistory by TLC. Monitored: XL energy/forces = SCF ones at P = converged D; fixed point on real tensors.",
        note="Not decided: linear stability over the response range, dt^2 scaling of the shadow energy, convergence to BO (numeric). c=0.95 delta mixing modelled as coded. History handling observed with a stub electronic structure.",
        tech="explicit TLA+ model (XLHistory) checked by TLC; traces of the real history buffer validated by TLC (XLHistoryTrace)",
        ref="DESIGN.md §4 C09",
    ),
    "C10": dict(
        text="TLC checks the run-loop model MDRun exhaustively (design constants) over cadences x run lengths x checkpoint cadences with up to 2 (quick) / 3 (thorough) crashes of both kinds (exception, kill) at every program point: checkpoint never partial, never ahead of what is durable, final HDF5 = reference, every XYZ frame exactly once, liveness. The crash schedules TLC explored are exported and replayed on the real run loop (forked children, armed hooks, real run_from_checkpoint, repeated crashes); every recorded trace with the driver's disk projection after each crash is validated against the same model by TLC (MDRunTrace). Tier B repeats this with the real electronic structure for every engine; row values are compared with an uninterrupted reference run.",
        note="Process death only (no power loss; the code never fsyncs). Tier A uses a history-sensitive stub electronic structure; tier B the real one on small molecules with tolerance 1e-6 (bitwise observed). Crash points are the hook-addressable ones plus syscall-level kills in the thorough tier. The model follows the first molid's files; others are compared at the end.",
        tech="explicit TLA+ model (MDRun) checked by TLC; TLC-exported crash schedules replayed on the code; recorded traces validated by TLC against the model",
        ref="DESIGN.md §4 C10",
    ),
    "C11": dict(
        text="TLC checks the run-loop model MDRun exhaustively over a cadence lattice (every stream = t0 snapshot + own multiples, capacity = rows written, cadence 0 = no rows; fresh and resumed); lattice points exported from TLC are replayed on the real run loop (4 engines, molid subsets) and every recorded hook trace plus the final files are validated against the same model by TLC (MDRunTrace), row values compared bitwise with an all-cadences-one reference run.",
        note="Stub electronic structure in place of the SCF (run loop, writers, checkpoint, resume are the real code); the model follows the first molid's files, other molids are compared with it in Python; screen/checkpoint streams have no t=0 entry; the nonadiabatic stream cadence is exercised in C10's surface-hopping runs.",
        tech="explicit TLA+ model (MDRun) checked by TLC + trace validation of the real run loop against it (MDRunTrace) on TLC-exported lattice points",
        ref="DESIGN.md §4 C11",
    ),
}

NA = {
    "C01": "Equality of a floating-point gradient with the finite-difference derivative of a floating-point energy over a continuous geometry space: no state, transition or exact arithmetic for a TLA+ model to decide, and TLC cannot evaluate the NDDO energy as oracle.",
    "C02": "Invariance/covariance of floating-point kernels under SO(3); the failing set is a coordinate singularity of a numeric routine, not a case split with model-computable expected values.",
    "C06": "Needs an independent evaluation of the published NDDO integrals (exp, sqrt, root finding) over the element tables; outside TLC's arithmetic, and a veneer around a Python oracle would decide nothing in TLA+.",
}
NOT_BUILT = "Check not built yet (planned in DESIGN.md §4); not claimed until it exists."

ALL = ["C%02d" % k for k in range(1, 21)]


def main():
    checks = []
    for pid in sorted(CHECKS):
        c = CHECKS[pid]
        checks.append(
            {
                "property_id": pid,
                "quick_cmd": f"./check {pid} --tier quick",
                "thorough_cmd": f"./check {pid} --tier thorough",
                "evidence_file": f"/verif/evidence/{pid}.json",
                "replay_cmd_template": f"./check {pid} --replay {{path}}",
                "engine": "tlc+replay",
                "level_claimed": {"category": "model_checking", "text": c["text"], "design_ref": c["ref"]},
                "level_note": c["note"],
                "technique": c["tech"],
            }
        )
    na = []
    for pid in ALL:
        if pid in CHECKS:
            continue
        na.append({"property_id": pid, "reason": NA.get(pid, NOT_BUILT)})
    m = {
        "version": 1,
        "setup_cmd": "true",
        "hooks": {
            "guard": "LANL_PYSEQM_VERIF",
            "enable": "LANL_PYSEQM_VERIF=1 in the environment before seqm is imported (Python: no build step); ./check sets it and puts the tree under test first on PYTHONPATH",
            "baseline_off_cmd": "cd /repo && env -u LANL_PYSEQM_VERIF /venv/bin/python -m pytest -ra -q -p no:cacheprovider --timeout=900 --continue-on-collection-errors",
            "source_commits": HOOK_COMMITS,
            "add_only": True,
        },
        "engines": [
            {
                "name": "tlc+replay",
                "path": "/verif/check",
                "serves_properties": sorted(CHECKS),
                "kind_free_text": "TLA+ specifications in /verif/spec checked by TLC; Python drivers replay TLC-exported behaviours on the real code and feed recorded traces back to TLC for validation",
            }
        ],
        "checks": checks,
        "not_applicable": na,
        "notes": "See DESIGN.md. known_findings.json lists genuine defects (fixed / known).",
    }
    with open(os.path.join(HERE, "MANIFEST.json"), "w") as f:
        json.dump(m, f, indent=1)


if __name__ == "__main__":
    main()
