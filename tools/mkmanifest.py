#!/usr/bin/env python3
"""Regenerates /verif/MANIFEST.json from the table below (single source of truth)."""
import json
import os

HERE = os.path.dirname(os.path.dirname(os.path.abspath(__file__)))

HOOK_COMMITS = ["6e1d5dd", "092527b", "70942f2", "7e1ebbc", "243e756", "1deda3c"]

CHECKS = {
    "C04": dict(
        text="Partial: decides (a) every solver configuration / start density / restart history reaches the same result class per geometry. TLC enumerates the walks of SCFHistory (sequences of solves over neighbouring geometries x start density {cold, density of the previous solve, perturbed} x 16 solver / force-method configurations incl. analytical and semi-numerical gradients, SP2 down to below the threshold floor, Pulay, fixed/adaptive mixing, the Krylov (KSA) solver, UHF singlet, loose/tight thresholds); PathIndependent holds on the model given C03's FlagTruthful and the premise of a single stable closed-shell solution. Exported walks are replayed on the real code, alone and as rows of mixed batches whose members converge at different iterations; all unflagged solves of one row at one geometry must agree in energy, forces, charges and occupied orbital energies within K*max(eps_i,eps_j)+floor.",
        note="Monotone approach under tightening is monitored along threshold ladders 1e-4..1e-10 (seven solver families) with the rule deviation <= max(previous deviation, K x new threshold). K is calibrated (largest observed ratio recorded in the evidence); premise: small near-equilibrium closed-shell molecules. Each solve is also covered by C03's residual predicates.",
        tech="explicit TLA+ model (SCFHistory) enumerated by TLC; exported walks replayed on the real solvers, result classes compared",
        ref="DESIGN.md §4 C04",
    ),
    "C07": dict(
        text="Decides acceptance of caller-supplied differentiable parameters (leaf, non-leaf network output, callable of the geometry), reachability of the caller's tensor by reverse-mode differentiation of Etot/Hf (every backward mode) and of orbital energies, gap, charges (implicit / unrolled mode), that every path of a parameter into the Fock step (direct one-centre terms, derived additive terms -> two-centre integrals -> core Hamiltonian) is credited exactly once, and that a geometry-dependent parameter changes the force. TLC checks ParamFlow (link of the parameter tensor through call -> merge -> copy -> integrals -> SCF stage, path multiplicities) for every method x parameter name x source x backward mode: Accepted, ReachesCaller, EachPathOnce, liveness; the shipped deep copy and the shipped 'saved inputs keep their history' implicit backward are refuted as spec mutants. Each exported row is replayed on the real Energy module (C/N/O/H molecule): the gradient of each output w.r.t. the caller's leaf is projected to {raised, none, zero, nonzero, nonfinite}, and its directional derivative is compared with a Richardson-extrapolated central difference of converged single points; extra rows use batches whose members converge at different iterations under every solver, and compare unrolled-mode Hessian columns with finite differences of the forces.",
        note="Gradient values are a monitored numeric predicate (one fixed direction per row, tolerance 5e-4 relative with floor 1e-3, largest observed ratio recorded in the evidence), not something TLC computes. Degenerate levels are avoided by displaced geometries. Hessian: four columns per row.",
        tech="explicit TLA+ model (ParamFlow) checked by TLC; one replay per exported row with autograd reachability projection and finite-difference comparison",
        ref="DESIGN.md §4 C07",
    ),
    "C14": dict(
        text="Decides Etot = Eelec + Enuc (+ active excitation energy), Hf = Etot - Eiso + atomic heats (the spec's own MOPAC table), gap = LUMO - HOMO (highest occupied / lowest virtual entry of the reported orbital energies, per spin for UHF; ascending on a fresh molecule object, ascending up to the orbital-tracking permutation inside the occupied and virtual blocks on a re-evaluated closed-shell object), every reported (orbital, energy) pair is an eigenpair of the Fock matrix the solver returned, charges follow from the density diagonal and sum to the molecular charge, electron count, the dipole is the one implied by the published charges, coordinates and density (point charges plus the one-centre s-p hybridisation term), its translation behaviour (invariant for neutral molecules, shift = charge x displacement for ions) and rotation covariance, and the currency of every published attribute. TLC checks Publish (paths x published attribute sets: Current) and evaluates the identities on fixed-point integers (1e-6 eV / 1e-6 e) logged from the real API after the second of two calls on one molecule object at different (displaced or 90-degree rotated) geometries, plus a third calculation at a translated geometry: molecules/ions/padded batches in both row orders x MNDO/AM1/PM3/PM6_SP x solvers x RHF/UHF x CIS/RPA active states incl. the top root x XL-BOMD path.",
        note="The products q_a R_a and dd_a P(s,p) of the dipole formula are formed by the driver (own one-line formula for the charge separation dd from the orbital exponents) and summed by TLC. The Fock matrix is the one returned by the code's solver (captured at the scf_loop boundary). On a re-evaluated closed-shell molecule object the code deliberately keeps orbital energies in tracked-orbital order; 'ascending' is required of fresh objects only (DESIGN.md A.5).",
        tech="explicit TLA+ module (Publish) whose identities TLC evaluates on fixed-point logs of the real published attributes",
        ref="DESIGN.md §4 C14",
    ),
    "C16": dict(
        text="Partial: decides the per-molecule bookkeeping of the batched Davidson solver (finished only when all roots passed the residual test, finished results frozen, subspace bound, collapse/expansion arithmetic, cap raises), ordering/positivity, RPA <= CIS; monitors orthonormality, residual, agreement with a dense diagonalisation and independence of start guess / amplitude reuse / number of roots / batch composition. TLC checks Davidson incl. liveness (the coded StagnationExit violates DoneMeansConverged on the model); every recorded solve (hooks dav.*) is validated against the model by TLC (DavidsonTrace), and a stagnation exit with residual above tolerance is a violation.",
        note="The dense reference matrices are assembled with the code's own sigma routine (nov <= 40), so only half of 'eigenpair of the true response matrix' is decided independently: the sum A+B of the code's matrices is rebuilt from the SCF Fock builder (no response code involved) and must agree to 1e-9; A-B is not rebuilt. RPA and heterogeneous-batch solvers have no hooks: API-level predicates only (RPA: residual of both coupled equations, X.X - Y.Y = 1, dense (A-B)(A+B) spectrum, amplitude reuse, batches whose rows finish at different iterations).",
        tech="explicit TLA+ model (Davidson) checked by TLC; hook traces of the real solver validated by TLC (DavidsonTrace); monitored eigenpair predicates",
        ref="DESIGN.md §4 C16",
    ),
    "C17": dict(
        text="Partial: decides hop bookkeeping, trivial-crossing permutation, frustrated hop = no change, per-trajectory isolation, probability bounds, exact energy conservation and smaller-root choice; exact norm preservation for zero coupling and drift at the integrator's order otherwise. TLC checks FSSH (two trajectories, three states; per step and trajectory a TLC-chosen trivial-crossing permutation, hop target and kinematics with exact rational velocity rescaling): SwapIsPermutation, FrustratedNoChange, EnergyExact, SmallerRoot, HoldoffBlocksHop, Isolation, PotentialTracksActive, decoherence on/off; sgn(0)=0 and swap-applied-to-all mutants are refuted. Thousands of exported behaviours are replayed on the real SurfaceHoppingDynamics._after_electronic_update / _attempt_hop / _rescale_velocity_along_nac (dummy dynamics objects as in the repository's tests; random draw, crossing mask, coupling vector and gap are the behaviour's inputs): active state, amplitude slots, hold-off, previous state, velocities (exact rationals, 1e-12), potential, hop log must equal the model's. _attempt_hop alone is driven over a dyadic grid.",
        note="Population conservation for non-zero coupling is monitored at the integrator's order (the drift falls by at least 10 per doubling of the sub-steps; 2..8 states, gaps 1e-4..5 eV, coupling spikes). One atom per trajectory, masses {1,2}, integer vectors, at most one accepted stochastic hop per trajectory; the hold-off tick of _do_integrator_step is performed by the driver; for v.d = 0 either root is accepted.",
        tech="explicit TLA+ model (FSSH) with exact rational kinematics checked by TLC; exported behaviours replayed on the real hop bookkeeping",
        ref="DESIGN.md §4 C17",
    ),
    "C20": dict(
        text="TLC checks Optimizer (loop control of Geometry_Optimization_SD on exact quadratic wells with alpha k = 1/2, batches with different start displacements): StopsAtFirstOk, EvalBound, CapReported, ConvergedReported, ReturnFromLastEvaluation, Descent, PrefixIndependent, liveness Terminates; '< tol' and wrong-sign mutants are refuted. Every exported behaviour (start displacements x tolerance x cap) is replayed on the real optimiser with a stub ES implementing the same wells: number of evaluations, per-iteration max force and energies, stop iteration, report line, returned residual force and energy change, final coordinates, immobile padding atom equal the model's. Real PES monitored: energies descend while alpha|F|^2 > 100 scf_eps, padding never moves, path of a molecule in a batch equals its solo path per iteration.",
        note="First convergence exactly at the evaluation cap is excluded from the report verdict (statement ambiguous; the code reports 'not converged').",
        tech="explicit TLA+ model (Optimizer) with exact arithmetic checked by TLC; every exported behaviour replayed on the real optimiser",
        ref="DESIGN.md §4 C20",
    ),
    "C05": dict(
        text="TLC evaluates the Batch specification (Parser index maps and the padded-orbital pack map transcribed with exact integer arithmetic) on every batch of an enumerated lattice: the index structure of a molecule in any batch is its solo structure shifted (Transparent), row reversal and extra padding columns only re-base it (PermInvariant, PadInvariant), pack is a bijection on physical orbitals. Every exported batch is run through the real Parser with three padding-coordinate conventions and every index tensor compared exactly; pack/unpack are decoded on self-describing matrices against the spec's map (single, homogeneous and mixed batch paths). Value transparency (molecule in batch vs alone; row orders, extra padding, padding coordinates, five solver configurations) and exactly-zero padding forces are monitored with stated tolerances; per-molecule convergence masks are C03's Frozen/NoReactivation.",
        note="Index lattice: <=2 (thorough 3) rows, <=3 atoms, species {H,(C),O}; value layouts are a sample drawn by VERIF_SEED; tolerances 1e-7 (energy-like) / 1e-6 (force-like) at scf_eps 1e-10, observed deviations <=1e-3 of them. Same-element relabelling is compared directly (atoms of equal atomic number permuted inside every molecule; scalars equal, per-atom outputs follow the permutation); MD trajectory independence is covered through C20's and C08's batch variants.",
        tech="explicit TLA+ specification (Batch) evaluated exhaustively by TLC as index oracle; exact comparison with the real Parser/pack; monitored value predicates",
        ref="DESIGN.md §4 C05",
    ),
    "C08": dict(
        text="Partial: decides the kick-drift-kick structure, force at the new positions, that written thermo (HDF5 rows and XYZ comment lines) belongs to the written phase point for every output cadence combination and molid selection, and transfers exact momentum / angular-momentum conservation and reversibility from an exact model; periodic COM removal zeroes the momenta about the centre of mass, keeps the kinetic energy and leaves them conserved in between. TLC checks VVExact (dyadic-rational velocity Verlet, 3 particles, masses {1,2}, dt 1/2, linear springs, optional field) over the initial-condition lattice; order mutants are refuted. Every exported behaviour is replayed on the real Molecular_Dynamics_Basic.run (stub ES = the same springs, dyadic masses) and coordinates, velocities, forces, Ek, Ep, T rows of the HDF5 output must equal the exact rationals to 1e-11 for their own step label; variants: non-nested output cadences (data/vectors/screen/xyz), two-row batches with molid [1] / [1,0], COM removal (linear/angular, strides 1/2) on geometries away from the origin.",
        note="Exact model limited to <=3 steps by 32-bit integers; unit constants are the driver's own literals. Second-order accuracy, time reversal and absence of drift on the real SCF surface are monitored numerically (step halving 0.4/0.2/0.1/0.05 fs on generically oriented molecules: end-point difference and fluctuation ratios within [3.5, 4.6] / [3.3, 4.8], observed 4.00-4.06; reversal to 1e-7; drift below 1.5 x fluctuation). Known finding: geometries with a bond along the x axis converge at first order only (antipodal snap of the local-frame rotation).",
        tech="explicit TLA+ exact-arithmetic model (VVExact) checked by TLC; TLC-exported behaviours replayed on the real integrator and compared with the model's rationals",
        ref="DESIGN.md §4 C08",
    ),
    "C12": dict(
        text="Decides operator structure O-(BAFB)-O, two noise draws per step, the fluctuation-dissipation identity of the whole-step velocity map, tau=inf == NVE, T=0 only removes energy, padding untouched, and that the coefficients in force stem from the current configuration of a re-used driver object. TLC checks VVExact with the Langevin wrapping (c1 in {1,1/2}, c2 = A/m, TLC-chosen +-1 noise patterns): OIdentity, ODissipates, Exact; behaviours are replayed on the real Molecular_Dynamics_Langevin (and damped XL_BOMD) with c1/c2 set to the dyadic values and torch.randn_like returning the pattern; HDF5 rows must equal the exact rationals and exactly 2 draws per step are consumed. TLC checks Thermostat (life cycle of the coefficients on a driver that is reconfigured and re-run: CoeffCurrent; the cached-coefficient deviation is refuted) and evaluates its identities on the per-atom step map v' = a v + SUM g_k xi_k measured through run() on Langevin, damped XL-BOMD, damped KSA (zero-force stub, selector noise patterns) and on the inherited O operator of surface hopping: SUM g_k^2 = (kT/m)(1 - a^2) to 3e-6 for dt/damp 1e-4..10, all masses of padded batches, temperatures incl. 0 K, damp = inf. Public constructor: damp=inf reproduces the NVE files bit for bit, Temp=0 never increases kinetic energy, padding velocities stay 0.",
        note="Long-run statistics are a monitored predicate with fixed seeds (16 chains on exact springs per engine; mean kinetic temperature of the second halves within 5 standard errors + 1 % of the target). The step map is measured with zero forces, where it is affine; kT/m uses the driver's own unit literals (agreement with the code's 1e-9).",
        tech="explicit TLA+ models (VVExact Langevin engine; Thermostat) checked by TLC; exported behaviours replayed on the real thermostat step; identities evaluated by TLC on step maps measured on the real engines",
        ref="DESIGN.md §4 C12",
    ),
    "C13": dict(
        text="TLC checks MDInit (seeding order, RNG stream position, DoF table per engine and COM mode, three initial-velocity branches, COM-removal schedule) over engines x COM modes x velocity sources x seeds x prior RNG histories; two deviations (seed applied late, supplied velocities stripped) are refuted as spec mutants. All 216 exported configurations are replayed on the real run loop: n_dof, number of normal draws, COM calls (iteration, mode) equal the model's; seeded runs are bitwise identical whatever was drawn before; seeds 1 and 2 differ; supplied velocities are the step-0 row bit for bit; padding atoms at rest. Monitored: T0=T, P=0, L=0 for drawn velocities, momenta zero / kinetic energy preserved around every COM removal (all <=1e-15 observed).",
        note="Stub electronic structure; padded NH3+H2O batch and padded H2O+H2 batch (diatomic: DoF 3N-5 under angular COM removal, fixed in aaec32a). Linear molecules with more than two atoms keep the code's 3N-6 count.",
        tech="explicit TLA+ model (MDInit) checked by TLC; every exported configuration replayed on the real MD prologue and compared with the model",
        ref="DESIGN.md §4 C13",
    ),
    "C15": dict(
        text="TLC checks Session (hidden process state: SCF class attributes, the element list stored in the caller's dict, pending autograd graphs) over all call histories up to length 4-5 drawn from a pool of 9 heterogeneous jobs (tight/loose implicit-backward jobs, dict reuse with new elements, a failing call, CIS, UHF, SP2+unrolled backward, XL-BOMD MD + resume): InputsOnlyForward, InputsOnlyBackward, DictStable; the two shipped deviations are refuted as spec mutants. Histories are exported with the expected hidden state after every prefix; sampled histories are executed in one child each on the real API and after every action the real hidden state must equal the model's, and every job's outputs (energies, forces, charges, gap, CIS energies, MD phase point, gradients of summed losses) must equal bitwise those of the same job run first in a fresh process; thread counts 2/4/16 vs 1 within 1e-9.",
        note="One driver object per settings dict is re-used across calls as long as the dict's element list (and the job's declared settings) did not change. Pool of 16 jobs incl. an unrestricted singlet, one MD driver object used for different runs (incl. control_energy_shift), a far-pair system (atom pairs beyond the overlap cutoff) and a call refused inside the SCF solver. Shared mutable default dicts are observed to accumulate keys that are always overwritten before being read; they are reported, not modelled.",
        tech="explicit TLA+ model (Session) checked by TLC over call histories; TLC-exported histories replayed on the real API with hidden-state comparison after every call",
        ref="DESIGN.md §4 C15",
    ),
    "C18": dict(
        text="TLC enumerates the Guards decision table (request records over 11 finite coordinates; verdict = first guard the code reaches, with stage and exception class) and checks DocumentedRejected, EarlyEnough, NoSpuriousReject on every row. One replay per exported row (quick: sample of single-fault, accepted and multi-fault rows; thorough: all ~10^4) on the real API (single point or one MD step): raised-vs-returned must equal the verdict, after a raise nothing may have been published on the molecule, returned rows must be finite or flagged. 25 stress inputs (0.5x-30x geometries, charges +-2/+4, third-row elements, four methods) must be finite or flagged.",
        note="Malformed variants derive from two valid base batches (2xH2O, H2O+CH4). The two late rejections in MD that existed (CIS on a heterogeneous batch, RPA amplitude reuse) were repaired. Guards of options outside the listed preconditions are not in the table.",
        tech="explicit TLA+ decision table (Guards) enumerated by TLC; one replay per exported row on the real API",
        ref="DESIGN.md §4 C18",
    ),
    "C19": dict(
        text="Decides (b) default cutoff drops nothing and (c) a finite cutoff drops exactly the pairs beyond it (a sphere, also for diagonal displacements; also after the geometry moved in MD); monitors (a) additivity. TLC evaluates Batch!CutoffExact / SameMoleculeOnly on the enumerated lattice and on two-fragment batches at separations 8-500 A along an axis and along the space diagonal; the real Parser's pair lists are compared exactly with the specification's, the number of two-centre integral rows built by the real calculation equals |Pairs|, every listed pair carries its Klopman-Ohno kernel (between R/sqrt(R^2+16) and 1 times e^2/R), and after MD steps in which atoms cross a finite cutoff the pair list held by the code is the specification's for the current geometry. Additivity: neutral closed-shell fragments (pairs, a triple; three directions, three methods) at 8..500 A - deviations of energy, forces, charges and orbital energies from the isolated fragments must stay below max(envelope of the smaller separations decayed with the leading multipole power minus 0.5, cap x (8/R)^3 resp. ^2).",
        note="Additivity is a monitored numeric predicate with calibrated caps (5 x the largest deviation at 8 A on the unchanged tree; ratios recorded in the evidence), not a TLC computation. Cutoffs never coincide with an occurring distance.",
        tech="explicit TLA+ specification (Batch pair list) evaluated by TLC; exact comparison with the real Parser and its consumers; monitored decay of fragment interactions",
        ref="DESIGN.md §4 C19",
    ),
    "C03": dict(
        text="TLC checks the SCF control model (get_error data flow, active set, frozen rows, iteration caps, SP2 inner loop, epilogue) exhaustively: mask and returned flags truthful, no re-activation, converged rows frozen, bounded, liveness Terminates; spec mutants must be refuted. A lattice of real single-point jobs (molecules/padded batches/ions/UHF x fixed/adaptive/Pulay x SP2 tolerances x thresholds x start densities x caps) runs with SCF hooks on; every solver span is validated against the model by TLC (SCFTrace), and the self-consistency predicates (symmetry, trace, charge sum, idempotency, commutation, re-diagonalisation, energy functional) are evaluated at API return for every molecule reported converged; an SP2 loop exceeding its iteration budget counts as a call that does not return.",
        note="Predicate bounds are C*max(scf_eps, effective SP2 tolerance)+floor with solver-aware constants calibrated on the unchanged tree (ratios recorded in the evidence); the Fock matrix in the predicates is the code's own, built from the returned density. The Krylov (KSA) solver has no convergence-test hook: its jobs are judged by the predicates at API return only (no trace validation).",
        tech="explicit TLA+ model (SCF) checked by TLC incl. liveness; hook traces of the real solvers validated by TLC (SCFTrace); projection predicates at API return",
        ref="DESIGN.md §4 C03",
    ),
    "C09": dict(
        text="Partial: decides (b) fixed point at every buffer phase and (c) the executed recurrence is the published one for k=3..9 incl. after restart. TLC checks XLHistory (the paper's table as integers: sum rule, fixed point; slot->age alignment, overwrite-oldest, window, newest-after-resume) exhaustively for k=3..9 with crash/resume at every step; two alignment mutants must be refuted. The real XL_BOMD/KSA_XL_BOMD one_step, _propagate_P and run_from_checkpoint are observed (one-hot decoding of the applied weights, slot written, slot resumed) for every k, 3m+2 steps and a restart at buffer phases; the traces are validated against XLHistory by TLC. Monitored: XL energy/forces = SCF ones at P = converged D; fixed point on real tensors.",
        note="Not decided: linear stability over the response range, dt^2 scaling of the shadow energy, convergence to BO (numeric). c=0.95 delta mixing modelled as coded. History handling observed with a stub electronic structure. Monitored on the real code: XL/KSA energy and forces at P = converged D equal the SCF ones; the KSA kernel update at P != D solves the Newton equation it reports (achieved residual by finite differences = published Krylov error, per molecule of a batch, ranks 1-3; the code's convention J = 1/2 dD/dP - 1 is taken as given); at fractional occupations the KSA forces equal minus the finite-difference gradient of the reported free energy (Etot + entropy term) to 1e-6.",
        tech="explicit TLA+ model (XLHistory) checked by TLC; traces of the real history buffer validated by TLC (XLHistoryTrace)",
        ref="DESIGN.md §4 C09",
    ),
    "C10": dict(
        text="TLC checks the run-loop model MDRun exhaustively (design constants) over cadences x run lengths x checkpoint cadences with up to 2 (quick) / 3 (thorough) crashes of both kinds (exception, kill) at every program point: checkpoint never partial, never ahead of what is durable, final HDF5 = reference, every XYZ frame exactly once, liveness. The crash schedules TLC explored are exported and replayed on the real run loop (forked children, armed hooks, real run_from_checkpoint, repeated crashes); every recorded trace with the driver's disk projection after each crash is validated against the same model by TLC (MDRunTrace). Tier B repeats this with the real electronic structure for every engine (incl. surface hopping with nonadiabatic cadences and XYZ frames between checkpoints); row values are compared with an uninterrupted reference run, real processes are killed inside write / rename system calls, and a state-completeness audit compares every attribute of the engine and molecule objects one loop iteration after a resume with the uninterrupted run (binding of the root module Pyseqm: EngineStateExact).",
        note="Process death only (no power loss; the code never fsyncs). Tier A uses a history-sensitive stub electronic structure; tier B the real one on small molecules with tolerance 1e-6 (bitwise observed). Crash points are the hook-addressable ones plus syscall-level kills. The thorough tier model-checks the full lattice with up to 3 crashes on all cores; schedules with two crashes are exported (one TLC worker) from a medium lattice, with three from a small one. The model follows the first molid's files; others are compared at the end.",
        tech="explicit TLA+ model (MDRun) checked by TLC; TLC-exported crash schedules replayed on the code; recorded traces validated by TLC against the model",
        ref="DESIGN.md §4 C10",
    ),
    "C11": dict(
        text="TLC checks the run-loop model MDRun exhaustively over a cadence lattice (every stream = t0 snapshot + own multiples, capacity = rows written, cadence 0 = no rows; fresh and resumed); lattice points exported from TLC are replayed on the real run loop (4 engines, molid subsets) and every recorded hook trace plus the final files are validated against the same model by TLC (MDRunTrace), row values compared bitwise with an all-cadences-one reference run.",
        note="Stub electronic structure in place of the SCF (run loop, writers, checkpoint, resume are the real code) except for the nonadiabatic stream, which is exercised with real surface-hopping runs (H2CO, CIS, fresh and resumed, values within 1e-6 of the reference); the model follows the first molid's files, other molids are compared with it in Python; screen/checkpoint streams have no t=0 entry.",
        tech="explicit TLA+ model (MDRun) checked by TLC + trace validation of the real run loop against it (MDRunTrace) on TLC-exported lattice points",
        ref="DESIGN.md §4 C11",
    ),
}

NA = {
    "C01": "Equality of a floating-point gradient with the finite-difference derivative of a floating-point energy over a continuous geometry space: no state, transition or exact arithmetic for a TLA+ model to decide, and TLC cannot evaluate the NDDO energy as oracle.",
    "C02": "Invariance/covariance of floating-point kernels under SO(3); the failing set is a coordinate singularity of a numeric routine, not a case split with model-computable expected values.",
    "C06": "Needs an independent evaluation of the published NDDO integrals (exp, sqrt, root finding) over the element tables; outside TLC's arithmetic, and a veneer around a Python oracle would decide nothing in TLA+.",
}
NOT_BUILT = "Check not built yet (planned in DESIGN.md §4); not claimed until it exists."

ALL = ["C%02d" % k for k in range(1, 21)]


def main():
    checks = []
    for pid in sorted(CHECKS):
        c = CHECKS[pid]
        checks.append(
            {
                "property_id": pid,
                "quick_cmd": f"./check {pid} --tier quick",
                "thorough_cmd": f"./check {pid} --tier thorough",
                "evidence_file": f"/verif/evidence/{pid}.json",
                "replay_cmd_template": f"./check {pid} --replay {{path}}",
                "engine": "tlc+replay",
                "level_claimed": {"category": "model_checking", "text": c["text"], "design_ref": c["ref"]},
                "level_note": c["note"],
                "technique": c["tech"],
            }
        )
    na = []
    for pid in ALL:
        if pid in CHECKS:
            continue
        na.append({"property_id": pid, "reason": NA.get(pid, NOT_BUILT)})
    m = {
        "version": 1,
        "setup_cmd": "true",
        "hooks": {
            "guard": "LANL_PYSEQM_VERIF",
            "enable": "LANL_PYSEQM_VERIF=1 in the environment before seqm is imported (Python: no build step); ./check sets it and puts the tree under test first on PYTHONPATH",
            "baseline_off_cmd": "cd /repo && env -u LANL_PYSEQM_VERIF /venv/bin/python -m pytest -ra -q -p no:cacheprovider --timeout=900 --continue-on-collection-errors",
            "source_commits": HOOK_COMMITS,
            "add_only": True,
        },
        "engines": [
            {
                "name": "tlc+replay",
                "path": "/verif/check",
                "serves_properties": sorted(CHECKS),
                "kind_free_text": "TLA+ specifications in /verif/spec checked by TLC; Python drivers replay TLC-exported behaviours on the real code and feed recorded traces back to TLC for validation",
            }
        ],
        "checks": checks,
        "not_applicable": na,
        "notes": "See DESIGN.md. known_findings.json lists genuine defects (fixed / known).",
    }
    with open(os.path.join(HERE, "MANIFEST.json"), "w") as f:
        json.dump(m, f, indent=1)


if __name__ == "__main__":
    main()
